#!/usr/bin/env python3
"""Write round-2 seeding prompts /tmp/wt/prompt2_<PID>.txt and create the scratch worktrees /tmp/wt/r2_<pid>.
The prompt contains only the property text, the scratch worktree, and a hint which areas of the library to prefer."""
import json, os, subprocess, sys
FOCUS = {
 "C01": "boundary sampling of unions/cuts/intersections, translated or rotated domains with parameter-dependent transforms, grid sampling (n and density), Gaussian and Latin-hypercube samplers, spheres / intervals / points",
 "C02": "ProductSampler with a dependent first factor, sums (+) and AppendSampler, GridSampler remainder points, density-based samplers, static samplers inside products, len()",
 "C03": "grad with several variables, normal_derivative, div / jac of vector fields, rot, convective, sym_grad, higher partial derivatives, float32 vs float64, inputs that are views / non-contiguous",
 "C04": "MeanCondition / DeepRitzCondition, DataCondition norms, PIDeepONetCondition / DeepONetDataCondition, IntegroPINNCondition, parameter routing, custom error_fn / reduce_fn, track_gradients",
 "C05": "spheres / intervals / points, the inverse mapping of Translate / Rotate, membership of product domains with a dependent factor, boundary objects of cut / union, parameters handed in as extra point columns, necessary_variables",
 "C06": "circle / sphere normals, parallelogram edges and corners, rotated / translated boundaries, normals of union / intersection boundaries, interval boundaries",
 "C07": "scheduler frequency / interval, validation, ascent of adaptive weights, inverse-problem Parameters, n_training_step, the number of steps of the train dataloader",
 "C08": "space derivation of Sequential / Parallel, NormalizationLayer, Harmonic_FCN / DeepRitzNet, several batch axes, the error for a missing variable",
 "C09": "multi-dimensional outputs, convolutional vs fully connected branch nets, the reshaping for trunk_input_copied, the different forms accepted by fix_input, a Sequential trunk with a normalization layer",
 "C10": "volumes of boundaries (edge lengths of triangles / parallelograms, sphere surface), intervals, rotated / translated volumes, set_volume with a callable, the number of points of density GRID sampling, the disjoint / contained flags",
 "C11": "the Gaussian sampler, uniform sampling of triangles / parallelograms (barycentric coordinates), boundaries uniform by edge length, spheres, ExponentialIntervalSampler, evenness of triangle grids, density sampling",
 "C12": "the Space algebra (product, sub-space, containment), Points.join / cat / repeat / unsqueeze, arithmetic, equality, from_coordinates, track_coord_gradients, moving between devices",
 "C13": "defaults, partially_evaluate, set_default / remove_default, DomainUserFunction with constants / tensors, calls with a dict vs with Points, argument order",
 "C14": "the two sides of PeriodicCondition, shared domains / samplers, the cache of static samplers, mutable default arguments, AdaptiveWeightsCondition, the HPM conditions",
 "C15": "StaticSampler.__next__, the resample interval, changing the device, the kept fraction of adaptive samplers, make_static of a static sampler",
 "C16": "PointsDataLoader batching / shuffling / drop_last, DeepONetDataLoader with unique vs shared trunk points, the iterator of DataCondition, use_full_dataset, the inf norm",
 "C17": "__call__ of Boolean / product / transformed domains, boundary objects, a user-set volume or bounds after binding, samplers over evaluated domains, necessary_variables",
 "C18": "boxes of triangles / parallelograms / circles / spheres, rotations by more than 90 degrees, boxes of unions / cuts / intersections, product boxes, NormalizationLayer, Latin-hypercube proposals",
 "C19": "TrainerStateCheckpoint interval / weights_only / file name, the min-loss bookkeeping and check_interval of WeightSaveCallback, resuming with a scheduler",
 "C20": "the padding order in N-D, truncation of modes, the batch-norm path, the channel up / down sampling of FNO, 3-D inputs, the bias of the linear connection",
}
props = {json.loads(l)["id"]: json.loads(l) for l in open("/verif/properties.jsonl")}
tmpl = open("/verif/tools/seed_prompt_template.txt").read()
for pid in (sys.argv[1:] or sorted(FOCUS)):
    p = props[pid]
    wt = "/tmp/wt/r2_" + pid.lower()
    if not os.path.isdir(wt):
        subprocess.run(["git", "-C", "/repo", "worktree", "add", "-q", wt, "HEAD"], check=True)
    txt = tmpl.format(wt=wt, pid=pid, title=p["title"], statement=p["statement"], qtext=p["quantifier"]["text"], n=3)
    txt = txt.replace("{pid}_<i>".format(pid=pid), "{pid}_<i> (i = 4, 5, 6)".format(pid=pid)).replace("i = 1..3", "i = 4..6")
    txt += ("\n\nPrefer changes in these areas of the library (others are welcome if they fit better): " + FOCUS[pid] + ".\n"
            "At least two of the three changes should need a HISTORY (several calls on the same object, or several objects that share something) "
            "or a BATCH of several parameter rows / functions to manifest.\n"
            "IMPORTANT: never use `git stash` (the stash is shared between sibling worktrees); use `git diff > patch.diff`, `git checkout -- src`, "
            "`git apply` / `git apply -R` only. Never kill processes by a pattern that could match other worktrees' processes. "
            "Run the full test suite one at a time (it writes files into the current directory).\n")
    open("/tmp/wt/prompt2_%s.txt" % pid, "w").write(txt)
    print(pid, wt)

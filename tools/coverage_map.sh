#!/bin/bash
# usage: coverage_map.sh [PIDs...]  -- run the quick checks with line coverage of /repo/src/torchphysics recorded in the driver
# workers, then print the files with the lowest coverage (evidence goes to a scratch directory)
set -u
cd "$(dirname "$(readlink -f "$0")")/.."
d=$(mktemp -d /tmp/covmap-XXXXXX); ev=$(mktemp -d /tmp/covmap-ev-XXXXXX)
for p in ${@:-C01 C02 C03 C04 C05 C06 C07 C08 C09 C10 C11 C12 C13 C14 C15 C16 C17 C18 C19 C20}; do
  VERIF_COVERAGE=$d VERIF_EVIDENCE_DIR=$ev nice -n 10 ./check $p --tier quick 2>&1 | tail -1
done
cd $d && /venv/bin/python -m coverage combine -q . >/dev/null 2>&1
/venv/bin/python -m coverage report --data-file=$d/.coverage --sort=cover 2>/dev/null | tail -70
/venv/bin/python -m coverage json --data-file=$d/.coverage -o /tmp/covmap.json -q 2>/dev/null
echo "json: /tmp/covmap.json   data: $d"
rm -rf $ev

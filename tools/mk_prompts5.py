#!/usr/bin/env python3
"""Write round-5 seeding prompts /tmp/wt/prompt5_<PID>.txt and create the scratch worktrees /tmp/wt/r5_<pid>.
The prompt contains only the property record (text, quantification, the source files it is anchored in), the scratch
worktree and one-line summaries of the earlier seeded changes of the same property as ideas NOT to repeat (those
summaries were written by earlier, independent sub-agents; nothing about the checks in /verif is passed on)."""
import json, os, subprocess, sys
props = {json.loads(l)["id"]: json.loads(l) for l in open("/verif/properties.jsonl")}
tmpl = open("/verif/tools/seed_prompt_template.txt").read()
os.makedirs("/tmp/wt", exist_ok=True)
for pid in (sys.argv[1:] or sorted(props)):
    p = props[pid]
    wt = "/tmp/wt/r5_" + pid.lower()
    if not os.path.isdir(wt):
        subprocess.run(["git", "-C", "/repo", "worktree", "add", "-q", wt, "HEAD"], check=True)
    txt = tmpl.format(wt=wt, pid=pid, title=p["title"], statement=p["statement"], qtext=p["quantifier"]["text"], n=2)
    txt = txt.replace("{pid}_<i>".format(pid=pid), "{pid}_<i> (i = 13, 14)".format(pid=pid)).replace("i = 1..2", "i = 13..14")
    old = []
    for i in range(1, 13):
        m = os.path.join("/verif/seeded", "%s_%d" % (pid, i), "meta.json")
        if os.path.exists(m):
            old.append("  - " + json.load(open(m)).get("summary", "")[:200].replace("\n", " "))
    txt += ("\n\nThe property is anchored in these source files (any of them, and their callers/callees, are fair game; spread your "
            "two changes over DIFFERENT files / classes where possible, including the less central ones):\n  "
            + "\n  ".join(p["anchors"].get("files", [])) + "\n"
            "\nEarlier changes that were already tried for this property -- do NOT repeat these ideas or close variants:\n"
            + "\n".join(old) + "\n"
            "\nAt least two of the two changes should need something SPECIFIC to manifest: a HISTORY (several calls on the same object, or "
            "several objects that share something), a BATCH of several parameter rows / functions, an unusual-but-legal input, or two "
            "cooperating sites that each look fine alone.\n"
            "IMPORTANT: never use `git stash` (the stash is shared between sibling worktrees); use `git diff > patch.diff`, `git checkout -- src`, "
            "`git apply` / `git apply -R` only. Never kill processes by a pattern that could match other worktrees' processes. "
            "Run the full test suite one at a time (it writes files into the current directory). The machine is shared and busy: be patient "
            "with slow commands rather than restarting them.\n")
    open("/tmp/wt/prompt5_%s.txt" % pid, "w").write(txt)
    print(pid, wt)

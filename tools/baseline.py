#!/venv/bin/python
"""Run the repository's pinned test suite (guard off) and compare with /root/.vp/BASELINE.json stable_pass."""
import json, subprocess, sys, os, tempfile, xml.etree.ElementTree as ET
base = json.load(open("/root/.vp/BASELINE.json"))
xml = tempfile.mktemp(suffix=".xml", dir="/verif/.work" if os.path.isdir("/verif/.work") else None)
env = dict(os.environ); env.pop("TORCHPHYSICS_VERIF", None)
subprocess.run(["/venv/bin/python", "-m", "pytest", "-ra", "-q", "-p", "no:cacheprovider", "--timeout=900",
                "--continue-on-collection-errors", "--junitxml=" + xml], cwd="/repo", env=env,
               stdout=subprocess.DEVNULL, stderr=subprocess.DEVNULL)
passed = set()
for tc in ET.parse(xml).getroot().iter("testcase"):
    if not any(c.tag in ("failure", "error", "skipped") for c in tc):
        passed.add(tc.get("classname") + "::" + tc.get("name"))
os.unlink(xml)
want = set(base["stable_pass"])
missing = sorted(want - passed)
print("stable_pass expected %d, passing now %d, missing %d" % (len(want), len(want & passed), len(missing)))
for m in missing[:20]:
    print("  MISSING", m)
sys.exit(1 if missing else 0)

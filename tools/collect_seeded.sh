#!/bin/bash
# usage: collect_seeded.sh <pid lower-case, e.g. c03>  -- copy a sub-agent's seeded/ directory into /verif/seeded and remove its worktree
set -u
w=/tmp/wt/$1
[ -d "$w/seeded" ] || { echo "no $w/seeded"; exit 2; }
cp -r "$w"/seeded/* /verif/seeded/
git -C /repo worktree remove --force "$w"; rm -rf "$w"
ls /verif/seeded | grep -i "^$1" 

#!/venv/bin/python
"""Confirm seeded changes in a scratch worktree: demo exits 0 without / 1 with the patch, and the pinned test
suite still passes with it.  usage: confirm_seeded.py <seeded dir> ..."""
import json, os, subprocess, sys, tempfile, shutil, xml.etree.ElementTree as ET
base = set(json.load(open("/root/.vp/BASELINE.json"))["stable_pass"])
wt = tempfile.mkdtemp(prefix="confirm-", dir="/tmp")
os.rmdir(wt)
subprocess.run(["git", "-C", "/repo", "worktree", "add", "-q", wt, "HEAD"], check=True)
env = dict(os.environ, PYTHONPATH=wt + "/src", PYTHONWARNINGS="ignore")
env.pop("TORCHPHYSICS_VERIF", None)


def demo(d):
    return subprocess.run(["/venv/bin/python", "-W", "ignore", os.path.join(d, "demo.py")], cwd=wt, env=env,
                          stdout=subprocess.DEVNULL, stderr=subprocess.DEVNULL, timeout=900).returncode


try:
    for d in sys.argv[1:]:
        d = os.path.abspath(d)
        meta = json.load(open(os.path.join(d, "meta.json")))
        r0 = demo(d)
        ap = subprocess.run(["git", "-C", wt, "apply", os.path.join(d, "patch.diff")]).returncode
        r1 = demo(d)
        xml = os.path.join(wt, "junit.xml")
        subprocess.run(["/venv/bin/python", "-m", "pytest", "-q", "-p", "no:cacheprovider", "--timeout=900",
                        "--continue-on-collection-errors", "--junitxml=" + xml, "tests"], cwd=wt, env=env,
                       stdout=subprocess.DEVNULL, stderr=subprocess.DEVNULL)
        passed = set()
        for tc in (ET.parse(xml).getroot().iter("testcase") if os.path.exists(xml) else []):
            if not any(c.tag in ("failure", "error", "skipped") for c in tc):
                passed.add(tc.get("classname") + "::" + tc.get("name"))
        if os.path.exists(xml):
            os.unlink(xml)
        subprocess.run(["git", "-C", wt, "checkout", "--", "."])
        missing = sorted(base - passed)
        meta["confirmed"] = {"patch_applies": ap == 0, "demo_rc_without_patch": r0, "demo_rc_with_patch": r1,
                             "suite_stable_pass_missing_with_patch": missing[:10],
                             "base_commit": subprocess.run(["git", "-C", "/repo", "rev-parse", "--short", "HEAD"], capture_output=True, text=True).stdout.strip(),
                             "ok": ap == 0 and r0 == 0 and r1 == 1 and not missing}
        json.dump(meta, open(os.path.join(d, "meta.json"), "w"), indent=1)
        print(os.path.basename(d), meta["confirmed"]["ok"], "demo", r0, r1, "missing tests", len(missing))
finally:
    subprocess.run(["git", "-C", "/repo", "worktree", "remove", "--force", wt])
    shutil.rmtree(wt, ignore_errors=True)

#!/bin/bash
# usage: try_seeded.sh <patch.diff> <PID> [tier]
# Runs check <PID> against a scratch worktree of /repo with the seeded change applied (PYTHONPATH puts the worktree's
# src first, so the drivers import the changed torchphysics; /repo itself stays untouched, which matters while
# background runs use it).  Evidence of these runs goes to a scratch directory, not to /verif/evidence.
# Equivalent by hand: git -C /repo apply <patch>; ./check <PID>; git -C /repo checkout -- .
set -u
patch=$(readlink -f "$1"); pid=$2; tier=${3:-quick}
wt=$(mktemp -d -u /tmp/tryseed-XXXXXX)
git -C /repo worktree add -q "$wt" HEAD || exit 2
trap 'git -C /repo worktree remove --force "$wt"; rm -rf "$wt" "$ev"' EXIT
ev=$(mktemp -d /tmp/tryseed-ev-XXXXXX)
git -C "$wt" apply "$patch" || { echo "patch does not apply"; exit 2; }
log=/tmp/try_seeded_${pid}_$$.log
cd "$(dirname "$(readlink -f "$0")")/.." && PYTHONPATH="$wt/src" VERIF_EVIDENCE_DIR="$ev" ./check "$pid" --tier "$tier" > "$log" 2>&1
rc=$?
grep -E "^VIOLATION|KNOWN-FINDING|rejections by|MACHINERY" "$log" | cut -c1-220 | head -8
tail -1 "$log"
echo "rc=$rc log=$log"

#!/bin/bash
# usage: try_seeded.sh <patch.diff> <PID> [tier]   -- apply a seeded change to /repo, run the check, undo it
set -u
patch=$1; pid=$2; tier=${3:-quick}
cd /repo || exit 2
if ! git diff --quiet; then echo "repo not clean"; exit 2; fi
git apply "$patch" || { echo "patch does not apply"; exit 2; }
cd /verif && ./check "$pid" --tier "$tier" > /tmp/try_seeded_$pid.log 2>&1
rc=$?
git -C /repo checkout -- .
grep -E "^VIOLATION|KNOWN-FINDING|rejections by|MACHINERY" /tmp/try_seeded_$pid.log | cut -c1-220 | head -8
tail -1 /tmp/try_seeded_$pid.log
echo "rc=$rc"

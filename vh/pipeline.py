"""Shared pipeline: (A) model-check the design, (B) generate scenarios, (C) drive the real code,
(D) let TLC validate the recorded traces; then evidence + verdict lines.

Exit codes: 0 property held on everything explored (KNOWN-FINDING lines allowed),
            1 at least one VIOLATION line, 2 machinery failure."""
import json, os, subprocess, sys, time, shutil, concurrent.futures as cf, traceback, random

from . import tlc

VERIF = tlc.VERIF
EVID = os.environ.get("VERIF_EVIDENCE_DIR") or os.path.join(VERIF, "evidence")   # override: tools/try_seeded.sh only
REPLAYS = os.path.join(EVID, "replays")
PY = "/venv/bin/python"
NCPU = min(16, os.cpu_count() or 4)


def load_known():
    with open(os.path.join(VERIF, "known_findings.json")) as f:
        return json.load(f)


def struct_sig(obj):
    def walk(o):
        if isinstance(o, bool) or o is None or isinstance(o, str):
            return o
        if isinstance(o, (int, float)):
            return 0
        if isinstance(o, list):
            return [walk(x) for x in o]
        return {k: walk(v) for k, v in sorted(o.items()) if k != "tid"}
    return json.dumps(walk(obj), sort_keys=True)


def geo_sig(e, fine=True):
    """coarse class of a domain expression: operator / primitive kinds, which parts depend on parameters, orientation of
    polygons, kind of rotation -- no coordinates"""
    def dep(forms):
        out = set()
        for a in (forms if isinstance(forms, list) else [forms]):
            kk = a.get("k") if isinstance(a, dict) and fine else None
            if isinstance(kk, dict):
                out.update(n for n, v in kk.items() if v)
        return "".join(sorted(out))
    k = e["k"]
    if k in ("par", "tri"):
        a, b = e["a"], e["b"]
        o = e["o"]
        cr = (a[0]["c"] - o[0]["c"]) * (b[1]["c"] - o[1]["c"]) - (a[1]["c"] - o[1]["c"]) * (b[0]["c"] - o[0]["c"])
        slant = (a[0]["c"] != o[0]["c"] and a[1]["c"] != o[1]["c"]) or (b[0]["c"] != o[0]["c"] and b[1]["c"] != o[1]["c"])
        if not fine:
            return k
        return "%s%s%s~%s" % (k, "-" if cr < 0 else "+", "/" if slant else "", dep(e["o"] + e["a"] + e["b"]))
    if k in ("circle", "sphere"):
        return "%s~%s" % (k, dep(e["c"] + [e["r"]]))
    if k == "interval":
        return "interval~%s" % dep([e["lo"], e["hi"]])
    if k == "point":
        return "point~%s" % dep(e["p"])
    if k == "poly":
        r = e["rings"][0]
        sh = sum(r[i][0] * r[(i + 1) % len(r)][1] - r[i][1] * r[(i + 1) % len(r)][0] for i in range(len(r)))
        return "poly%d%s%s" % (len(r), "+" if sh > 0 else "-", "o" * (len(e["rings"]) - 1)) if fine else "poly"
    if k == "mesh":
        return "mesh%d/%d" % (len(e["fs"]), len(e["tets"])) if fine else "mesh"
    if k == "prod":             # which volume / sampling branch of ProductDomain: dependent first factor, parameters in either factor
        from .astutil import free_vars, space_vars
        fl, fr = free_vars(e["l"]), free_vars(e["r"])
        depv = fl & set(space_vars(e["r"]))
        mark = ("dep" if depv else "ind") + ("+pl" if fl - depv else "") + ("+pr" if fr else "")
        return "prod[%s](%s,%s)" % (mark, geo_sig(e["l"], fine), geo_sig(e["r"], fine))
    if k in ("union", "cut", "and"):
        return "%s(%s,%s)%s" % (k, geo_sig(e["l"], fine), geo_sig(e["r"], fine), "!" if e.get("disjoint") or e.get("contained") else "")
    if k == "trans":
        return "trans~%s(%s)" % (dep(e["t"]), geo_sig(e["d"], fine))
    if k == "rot":
        kind = "q" if e["m"] == "quarter" else ("3" + e["m"] if e["m"] in ("z345", "x345", "y90", "zx") else ("" if e["m"] in ("r0", "r90", "r180", "r270") or not fine else "*"))
        return "rot%s~%s(%s)" % (kind, dep(e["p"]), geo_sig(e["d"], fine))
    return "%s(%s)" % (k, geo_sig(e["d"], fine))


class Ctx:
    def __init__(self, pid, tier, seed, replay=None):
        self.pid, self.tier, self.seed, self.replay = pid, tier, seed, replay
        self.t0 = time.time()
        self.states = 0          # distinct states over all TLC runs of this check
        self.transitions = 0     # states generated (= transitions computed) over all TLC runs
        self.traces = 0          # traces of the real code validated by TLC
        self.events = 0
        self.samples = []
        self.mc_runs = []        # per TLC run: name, states, generated, wall, result
        self.rejections = []     # dicts: tid, clause, known (dev name or None), scenario, trace
        self.notes = []
        self.extra = {}
        self.exhaustive = False
        self.rule = ""
        self.assumptions = []
        self.quick = tier == "quick"
        self.work = tlc.workdir(pid)
        self.rng = random.Random(seed)
        self.mutant = None

    # ---------------- stage A: design-level model checking ----------------
    def mc(self, module, cfg=None, *, expect_violation=None, workers=NCPU, env=None, timeout=900,
           simulate=None, depth=None, coverage=False, note=None):
        if getattr(self, "skip_mc", False):
            return None
        """Run TLC on a design-level model.  expect_violation: name of an invariant that is expected
        to fail (a design-level counterexample of a KNOWN deviation, e.g. MC with Dev switched on)."""
        r = tlc.must_ok(tlc.run(module, cfg, workers=workers, env=env, timeout=timeout, simulate=simulate,
                                depth=depth, coverage=coverage, seed=self.seed if simulate else None),
                        "mc %s/%s" % (module, cfg or module))
        self.states += r.distinct
        self.transitions += r.generated
        rec = {"model": module, "cfg": cfg or module, "distinct_states": r.distinct,
               "states_generated": r.generated, "wall_s": round(r.wall, 1),
               "violated": r.violated, "completed": r.completed}
        if note:
            rec["note"] = note
        if coverage:
            rec["coverage"] = {k: list(v) for k, v in tlc.coverage_counts(r.out).items()}
        self.mc_runs.append(rec)
        if expect_violation is None:
            if r.rc != 0 or not (r.completed or simulate):
                raise tlc.MachineryError("design-level model %s/%s does not hold:\n%s" % (
                    module, cfg, "\n".join(r.out.splitlines()[-60:])))
        else:
            if expect_violation not in r.violated:
                raise tlc.MachineryError("model %s/%s: expected %s to be violated (deviation model), got %s" % (
                    module, cfg, expect_violation, r.violated))
        return r

    # ---------------- stage B: scenario generation by TLC ----------------
    def gen(self, module, cfg=None, *, env=None, simulate=None, depth=None, workers=1, timeout=600, seed=None):
        """Run a generator spec that writes scenarios as ndjson to IOEnv.OUT_FILE; returns the list."""
        out = os.path.join(self.work, "gen-%s-%d.ndjson" % (cfg or module, len(self.mc_runs)))
        e = dict(env or {})
        e["OUT_FILE"] = out
        r = tlc.must_ok(tlc.run(module, cfg, workers=workers, env=e, simulate=simulate, depth=depth,
                                seed=self.seed if seed is None else seed, timeout=timeout),
                        "gen %s/%s" % (module, cfg or module))
        if r.rc != 0:
            raise tlc.MachineryError("generator %s failed:\n%s" % (module, "\n".join(r.out.splitlines()[-40:])))
        self.states += r.distinct
        self.transitions += r.generated
        self.mc_runs.append({"model": module, "cfg": cfg or module, "role": "scenario generation",
                             "distinct_states": r.distinct, "states_generated": r.generated,
                             "wall_s": round(r.wall, 1)})
        scen = []
        if os.path.exists(out):
            with open(out) as f:
                for line in f:
                    line = line.strip()
                    if line:
                        scen.append(json.loads(line))
        return scen

    # ---------------- stage C: drive the real code ----------------
    def drive(self, driver, scenarios, *, shards=NCPU, timeout=1500, env=None):
        """Run vh.drivers.<driver> over the scenarios (sharded); returns list of traces.
        Every scenario gets 'tid' (1-based, stable)."""
        t_drive = time.time()
        for i, s in enumerate(scenarios):
            s.setdefault("tid", i + 1)
        shards = max(1, min(shards, len(scenarios)))
        e = dict(os.environ)
        e.update({"PYTHONPATH": VERIF + os.pathsep + e.get("PYTHONPATH", ""), "PYTHONHASHSEED": "0",
                  "TORCHPHYSICS_VERIF": "1", "OMP_NUM_THREADS": "1", "MKL_NUM_THREADS": "1",
                  "PYTHONWARNINGS": "ignore", "VERIF_SEED": str(self.seed)})
        e.update({k: str(v) for k, v in (env or {}).items()})
        if self.mutant:
            e["VERIF_MUTANT"] = self.mutant
        n = len(self.mc_runs)
        sf = os.path.join(self.work, "scen-%s-%d.json" % (driver, n))
        tf = os.path.join(self.work, "trace-%s-%d.json" % (driver, n))
        with open(sf, "w") as f:
            json.dump(scenarios, f)
        with open(tf + ".log", "w") as lf:
            try:
                p = subprocess.run([PY, "-W", "ignore", "-m", "vh.drivers." + driver, sf, tf, str(self.seed), str(shards)],
                                   cwd=VERIF, env=e, stdout=lf, stderr=subprocess.STDOUT, timeout=timeout)
            except subprocess.TimeoutExpired:
                raise tlc.MachineryError("driver %s timed out" % driver)
        if p.returncode != 0 or not os.path.exists(tf):
            raise tlc.MachineryError("driver %s failed (rc %s):\n%s" % (
                driver, p.returncode, open(tf + ".log").read()[-4000:]))
        with open(tf) as f:
            traces = json.load(f)
        traces.sort(key=lambda t: t["tid"])
        ms = sorted((t.get("ms", 0) for t in traces), reverse=True)
        self.mc_runs.append({"role": "drive real code", "driver": driver, "scenarios": len(scenarios),
                             "wall_s": round(time.time() - t_drive, 1), "cpu_s_in_calls": round(sum(ms) / 1000.0, 1),
                             "slowest_ms": ms[:8]})
        return traces

    # ---------------- stage D: TLC validates the traces ----------------
    def validate(self, module, traces, cfg=None, *, shards=NCPU, env=None, timeout=1500, by_tid=None,
                 count=True, dfs=False):
        """TLC decides every trace.  The trace spec prints <<"REJ", tid, clause, known>> per rejected trace
        and <<"VALIDATED", n>> from its POSTCONDITION.  Returns list of rejection dicts."""
        if not traces:
            return []
        shards = max(1, min(shards, len(traces)))
        parts = [traces[i::shards] for i in range(shards)]
        files = []
        for k, part in enumerate(parts):
            tf = os.path.join(self.work, "val-%s-%d-%d.json" % (module, len(self.mc_runs), k))
            with open(tf, "w") as f:
                json.dump(part, f)
            files.append(tf)

        def one(tf):
            e = dict(env or {})
            e["TRACE_FILE"] = tf
            return tlc.run(module, cfg, workers=1, env=e, timeout=timeout, dfs=dfs, heap="3g")

        with cf.ThreadPoolExecutor(max_workers=shards) as ex:
            results = list(ex.map(one, files))
        rej = []
        validated = 0
        st = gen = 0
        for r, part, tf in zip(results, parts, files):
            if r.rc != 0:
                ls = r.out.splitlines()
                errs = [i for i, l in enumerate(ls) if l.startswith("Error:")]
                msg = "\n".join("\n".join(ls[i:i + 6]) for i in errs[:3])
                keep = os.path.join(EVID, "tmp")
                os.makedirs(keep, exist_ok=True)
                shutil.copy(tf, os.path.join(keep, os.path.basename(tf)))
                raise tlc.MachineryError("trace validation %s: TLC exit %s on %s (copied to evidence/tmp)\n%s" % (
                    module, r.rc, tf, msg))
            v = r.tuples("VALIDATED")
            if not v or v[-1][1] != len(part):
                raise tlc.MachineryError("trace validation %s: %s traces in, %s validated\n%s" % (
                    module, len(part), v, "\n".join(r.out.splitlines()[-30:])))
            validated += v[-1][1]
            st += r.distinct
            gen += r.generated
            if len(r.tuples("REJ")) != r.out.count('"REJ"'):          # every printed rejection must have been parsed
                raise tlc.MachineryError("trace validation %s: %d rejection tuples parsed, %d printed" % (
                    module, len(r.tuples("REJ")), r.out.count('"REJ"')))
            seen = set()
            for t in r.tuples("REJ"):
                if t[1] in seen:
                    continue
                seen.add(t[1])
                rej.append({"tid": t[1], "clause": t[2], "known": (t[3] if len(t) > 3 and t[3] != "" else None),
                            "detail": t[4:] })
        self.states += st
        self.transitions += gen
        wall = max(r.wall for r in results)
        self.mc_runs.append({"model": module, "cfg": cfg or module, "role": "trace validation",
                             "traces": validated, "distinct_states": st, "states_generated": gen,
                             "wall_s": round(wall, 1), "rejected": len(rej)})
        if count:
            self.traces += validated
        idx = {t["tid"]: t for t in traces}
        for r in rej:
            r["trace"] = idx.get(r["tid"])
        self.rejections.extend(rej)
        return rej

    def replay_scenarios(self):
        """--replay <file | directory of replay files>: the recorded scenarios"""
        files = sorted(os.path.join(self.replay, f) for f in os.listdir(self.replay) if f.endswith(".json")) if os.path.isdir(self.replay) else [self.replay]
        out = []
        for f in files:
            sc = json.load(open(f))["trace"]["scenario"]
            sc.pop("tid", None)
            out.append(sc)
        return out

    def stratified(self, items, frac, key=None, min_per=1):
        """Quick-tier subsample: items are grouped by structure (the JSON term with every number replaced by 0, so
        shapes / kinds / parameter names distinguish classes) and a seeded sample of every class is kept, at least
        `min_per` each.  A plain stride once aliased with TLC's enumeration order and dropped whole classes."""
        import math
        key = key or struct_sig
        groups = {}
        for i, it in enumerate(items):
            groups.setdefault(key(it), []).append(i)
        keep = set()
        for g in sorted(groups):
            idx = groups[g]
            n = min(len(idx), max(min_per, math.ceil(frac * len(idx))))
            keep.update(self.rng.sample(idx, n))
        self.extra.setdefault("quick_subsample", []).append({"classes": len(groups), "kept": len(keep), "of": len(items)})
        return [it for i, it in enumerate(items) if i in keep]

    def sample(self, obj, limit=3):
        if len(self.samples) < limit:
            self.samples.append(obj)

    # ---------------- verdict + evidence ----------------
    def finish(self, level="model_checking"):
        known = load_known()
        listed = {k["id"]: k for k in known.get("known", []) if k["property"] == self.pid}
        viol, kf = [], {}
        for r in self.rejections:
            k = r.get("known")
            if k and k in listed:
                kf.setdefault(k, []).append(r)
            else:
                viol.append(r)
        os.makedirs(REPLAYS, exist_ok=True)
        for fn in os.listdir(REPLAYS):
            if fn.startswith("%s-%s-" % (self.pid, self.tier)):
                os.unlink(os.path.join(REPLAYS, fn))
        lines = []
        for k, rs in sorted(kf.items()):
            lines.append("KNOWN-FINDING: property=%s %s: %s (%d traces this run)" % (
                self.pid, k, listed[k]["what"], len(rs)))
        seen = set()
        for r in viol[:50]:
            path = os.path.join(REPLAYS, "%s-%s-%s.json" % (self.pid, self.tier, r["tid"]))
            with open(path, "w") as f:
                json.dump({"property": self.pid, "clause": r["clause"], "detail": r.get("detail"),
                           "deviation": r.get("known"), "trace": r.get("trace")}, f, indent=1, default=str)
            key = (r["clause"],)
            lines.append("VIOLATION property=%s replay=%s clause=%s%s" % (
                self.pid, path, r["clause"], (" unlisted-deviation=" + r["known"]) if r.get("known") else ""))
        ev = {
            "property_id": self.pid, "tier": self.tier, "seed": self.seed, "level": level,
            "coverage": {
                "states": self.states, "transitions": self.transitions,
                "traces_validated_against_impl": self.traces,
                "samples": self.samples or [{"note": "no sample recorded"}],
                "exhaustive": self.exhaustive, "rule": self.rule,
                "tlc_runs": self.mc_runs, "events": self.events,
                "rejected_traces": len(self.rejections),
                "known_finding_traces": {k: len(v) for k, v in kf.items()},
                "notes": self.notes,
            },
            "assumptions": self.assumptions,
            "wall_s": round(time.time() - self.t0, 1),
            "violations": len(viol),
        }
        ev["coverage"].update(self.extra)
        os.makedirs(EVID, exist_ok=True)
        with open(os.path.join(EVID, self.pid + ".json"), "w") as f:
            json.dump(ev, f, indent=1, default=str)
        for l in lines:
            print(l)
        br = {}
        for r in self.rejections:
            key = r["clause"] + ("/" + r["known"] if r.get("known") else "")
            br[key] = br.get(key, 0) + 1
        if br:
            print("rejections by clause/deviation:", json.dumps(br, sort_keys=True))
        print("%s %s: %d TLC states, %d traces of the real code validated, %d rejected (%d known-finding, %d violations), %.0fs" % (
            self.pid, self.tier, self.states, self.traces, len(self.rejections),
            len(self.rejections) - len(viol), len(viol), time.time() - self.t0))
        shutil.rmtree(self.work, ignore_errors=True)
        return 1 if viol else 0


def selftest(pid, mod, tier, seed):
    """Binding demonstration: every in-process mutant listed for the property must be rejected by TLC."""
    from . import mutants
    res = {}
    for name in mutants.BY_PROPERTY.get(pid, []):
        ctx = Ctx(pid, tier, seed)
        ctx.mutant = name
        ctx.skip_mc = True
        mod.run(ctx)
        br = {}
        for r in ctx.rejections:
            if not r.get("known"):
                br[r["clause"].split("@")[0]] = br.get(r["clause"].split("@")[0], 0) + 1
        res[name] = br
        shutil.rmtree(ctx.work, ignore_errors=True)
        print("selftest %s mutant %-28s %s %s" % (pid, name, "CAUGHT" if br else "MISSED", json.dumps(br, sort_keys=True)[:200]))
    with open(os.path.join(EVID, "selftest_%s.json" % pid), "w") as f:
        json.dump(res, f, indent=1)
    return 0 if all(res.values()) else 1


def main(argv):
    import argparse, importlib
    ap = argparse.ArgumentParser()
    ap.add_argument("pid", nargs="?")
    ap.add_argument("--tier", default=os.environ.get("VERIF_TIER", "quick"), choices=["quick", "thorough"])
    ap.add_argument("--replay")
    ap.add_argument("--setup", action="store_true")
    ap.add_argument("--selftest", action="store_true")
    a = ap.parse_args(argv)
    seed = int(os.environ.get("VERIF_SEED", "0") or 0)
    if a.setup:
        from . import setup
        return setup.run()
    if not a.pid:
        ap.error("property id required")
    pid = a.pid.upper()
    try:
        mod = importlib.import_module("vh.props." + pid.lower())
    except ModuleNotFoundError:
        print("no check for", pid)
        return 2
    ctx = Ctx(pid, a.tier, seed, replay=a.replay)
    try:
        if a.selftest:
            rc = selftest(pid, mod, a.tier, seed)
        else:
            mod.run(ctx)
            from . import manifest
            rc = ctx.finish(level=manifest.CLAIMED.get(pid, {}).get("level", "model_checking"))
    except tlc.MachineryError as e:
        print("MACHINERY-FAILURE property=%s: %s" % (pid, e))
        shutil.rmtree(ctx.work, ignore_errors=True)
        return 2
    except Exception:
        traceback.print_exc()
        print("MACHINERY-FAILURE property=%s" % pid)
        shutil.rmtree(ctx.work, ignore_errors=True)
        return 2
    return rc

"""The binding between specification terms and torchphysics objects (geometry universe).

AST -> Domain:  affine forms become constants or generated python functions whose parameter names are exactly
the free variables; rotations become rational matrices; nothing here computes membership, volume, ..."""
import torch
import torchphysics as tp
from torchphysics.problem.spaces import Points, Space
from .astutil import slopes, aff_vars, space_vars, free_vars

F = 256
ROT = {"r0": (1, 0, 1), "r90": (0, 1, 1), "r180": (-1, 0, 1), "r270": (0, -1, 1),
       "p345": (4, 3, 5), "m345": (4, -3, 5), "p51213": (12, 5, 13)}
ROT3 = {"z345": ([[4, -3, 0], [3, 4, 0], [0, 0, 5]], 5), "x345": ([[5, 0, 0], [0, 4, -3], [0, 3, 4]], 5),
        "y90": ([[0, 0, 1], [0, 1, 0], [-1, 0, 0]], 1), "zx": ([[20, -12, 9], [15, 16, -12], [0, 15, 20]], 25)}
SPACES = {"x": 2, "u": 1, "y": 3, "z": 1, "t": 1, "k": 1}


OFFSET = [None]      # build the same expression far from the origin: every POSITION form gets OFFSET[0][i] added to its i-th component


def mk_pos(av):
    """mk_fun for positions (centres, corners, interval ends, pivots): shifted by OFFSET when a far copy is built"""
    return mk_fun(av, pos=True)


def mk_fun(av, scalar=False, pos=False):
    """list of affine forms -> constant (list / float) or a function of exactly the free variables"""
    forms = av if isinstance(av, list) else [av]
    vs = aff_vars(forms)
    K = SCALE[0]
    off = OFFSET[0] if (pos and OFFSET[0]) else [0.0] * len(forms)
    if not vs and pos and INTPOS[0] and isinstance(av, list) and all(float(a["c"] / 4.0 * K + off[i]).is_integer() for i, a in enumerate(forms)):
        return torch.tensor([int(a["c"] / 4.0 * K + off[i]) for i, a in enumerate(forms)])      # an INTEGER tensor (torch.tensor([1, -2]))
    if not vs:
        vals = [a["c"] / 4.0 * K + off[i] for i, a in enumerate(forms)]
        return vals[0] if (scalar or not isinstance(av, list)) else vals
    terms = []
    for i_, a in enumerate(forms):
        expr = "%r" % (a["c"] / 4.0 * K + off[i_])
        for n, s in slopes(a).items():
            expr += " + %r*%s" % (float(s), n)
        expr += " + 0.0*%s" % vs[0]          # keep the batch shape for constant components
        terms.append("(" + expr + ")")
    if len(terms) == 1:
        body = terms[0]
    else:     # works for batches (N,1) and for plain numbers (partial evaluation with floats)
        body = "_cat(%s)" % ", ".join(terms)
    src = "def f(%s):\n    return %s\n" % (", ".join(vs), body)
    ns = {"_torch": torch, "_cat": _cat}
    exec(src, ns)
    return ns["f"]


def _col(x):
    t = torch.as_tensor(x, dtype=torch.float32)
    return t.reshape(-1, 1) if t.dim() < 2 else t


def _cat(*xs):
    cols = torch.broadcast_tensors(*[_col(x) for x in xs])
    return torch.cat(cols, dim=-1)


SCALE = [1.0]        # build the same expression K times larger (every length and position multiplied by K, parameters too)
SPLIT = [False]      # build 2-D shapes over the product space x1 * x2 (two one-dimensional variables) instead of x


def space_of(v):
    if SPLIT[0] and v == "x":
        return Space({"x1": 1}) * Space({"x2": 1})
    return Space({v: SPACES[v]})


def build_scaled(e, k):
    """the same expression with all lengths and positions multiplied by k; parameter VALUES are to be given multiplied by k too
    (shape functions are affine with slopes on parameters: c*k + slope * (k*t) = k * (c + slope * t))"""
    SCALE[0] = float(k)
    try:
        return build(e)
    finally:
        SCALE[0] = 1.0


INTPOS = [False]     # hand whole-number positions over as integer tensors


def build_intpos(e):
    INTPOS[0] = True
    try:
        return build(e)
    finally:
        INTPOS[0] = False


FAR = [1000000.0, 2000000.0, -500000.0]


def build_far(e, far=None):
    """the same expression moved far away from the origin: every position (corners, centres, interval ends, polygon / mesh vertices,
    pivots of rotations) by `far` (default FAR: quarter units stay exactly representable in single precision); translation vectors
    and radii are not positions"""
    OFFSET[0] = list(far or FAR)
    try:
        return build(e)
    finally:
        OFFSET[0] = None


def build_split(e):
    """the same expression over the product space x1 * x2 (only for expressions whose single space variable is x)"""
    SPLIT[0] = True
    try:
        return build(e)
    finally:
        SPLIT[0] = False


def build(e):
    k = e["k"]
    D = tp.domains
    if k == "interval":
        return D.Interval(space_of(e["v"]), mk_pos(e["lo"]), mk_pos(e["hi"]))
    if k == "point":
        return D.Point(space_of(e["v"]), mk_pos(e["p"]))
    if k == "par":
        return D.Parallelogram(space_of(e["v"]), mk_pos(e["o"]), mk_pos(e["a"]), mk_pos(e["b"]))
    if k == "tri":
        return D.Triangle(space_of(e["v"]), mk_pos(e["o"]), mk_pos(e["a"]), mk_pos(e["b"]))
    if k == "circle":
        return D.Circle(space_of(e["v"]), mk_pos(e["c"]), mk_fun(e["r"]))
    if k == "sphere":
        return D.Sphere(space_of(e["v"]), mk_pos(e["c"]), mk_fun(e["r"]))
    if k == "poly":         # constant rings of quarter-unit vertices: ring 1 exterior, the others holes
        from torchphysics.problem.domains.domain2D.shapely_polygon import ShapelyPolygon      # not re-exported (optional dependency)
        K = SCALE[0]
        ox, oy = (OFFSET[0][0], OFFSET[0][1]) if OFFSET[0] else (0.0, 0.0)
        rings = [[(x / 4.0 * K + ox, y / 4.0 * K + oy) for x, y in r] for r in e["rings"]]
        if len(rings) == 1:
            return ShapelyPolygon(space_of(e["v"]), vertices=[list(p) for p in rings[0]])
        import shapely.geometry as s_geo
        return ShapelyPolygon(space_of(e["v"]), shapely_polygon=s_geo.Polygon(rings[0], rings[1:]))
    if k == "mesh":         # constant vertices (quarter units) and surface triangles (1-based indices) as the term gives them
        K = SCALE[0]
        from torchphysics.problem.domains.domain3D.trimesh_polyhedron import TrimeshPolyhedron
        o3 = OFFSET[0] if OFFSET[0] else [0.0, 0.0, 0.0]
        return TrimeshPolyhedron(space_of(e["v"]), vertices=[[c / 4.0 * K + o3[i] for i, c in enumerate(v)] for v in e["vs"]],
                                   faces=[[i - 1 for i in f] for f in e["fs"]], tol=1.0e-06 * K)     # (the boundary tolerance is the user's: scaled with the mesh)
    if k == "union":
        if e.get("disjoint"):
            from torchphysics.problem.domains.domainoperations.union import UnionDomain
            return UnionDomain(build(e["l"]), build(e["r"]), disjoint=True)
        return build(e["l"]) + build(e["r"])
    if k == "cut":
        if e.get("contained"):
            from torchphysics.problem.domains.domainoperations.cut import CutDomain
            return CutDomain(build(e["l"]), build(e["r"]), contained=True)
        return build(e["l"]) - build(e["r"])
    if k == "and":
        return build(e["l"]) & build(e["r"])
    if k == "prod":
        return build(e["l"]) * build(e["r"])
    if k == "trans":
        return D.Translate(build(e["d"]), mk_fun(e["t"]))
    if k == "rot" and e["m"] == "quarter":        # rotation by (pi/2) * parameter: Rotate.from_angles with an angle function
        import math
        ns = {}
        avs = [n_ for n_ in (e["an"], e.get("an2", "")) if n_]          # an angle function of one or of two variables
        exec("def ang(%s):\n    return %r * (%s)\n" % (", ".join(avs), math.pi / 2 / SCALE[0], " + ".join(avs)), ns)
        return D.Rotate.from_angles(build(e["d"]), ns["ang"], rotate_around=mk_pos(e["p"]))
    if k == "rot" and e["m"] in ROT3:
        M, h = ROT3[e["m"]]
        return D.Rotate(build(e["d"]), torch.tensor([[[x / h for x in row] for row in M]]), mk_pos(e["p"]))
    if k == "rot":
        c, s, h = ROT[e["m"]]
        m = torch.tensor([[[c / h, -s / h], [s / h, c / h]]])
        return D.Rotate(build(e["d"]), m, mk_pos(e["p"]))
    if k == "bd":
        return build(e["d"]).boundary
    if k == "bdl":
        return build(e["d"]).boundary_left
    if k == "bdr":
        return build(e["d"]).boundary_right
    raise ValueError(k)


def mk_params(names, rows):
    """rows: list of dicts name->int value.  Returns Points (float32) over the given names, or empty."""
    names = list(names)
    if not names or not rows:
        return Points.empty()
    sp = Space({})
    for n in names:
        sp = sp * Space({n: 1})
    data = torch.tensor([[float(r[n]) for n in names] for r in rows], dtype=torch.float32).reshape(len(rows), len(names))
    return Points(data, sp)


def quant(v, scale=F):
    import math
    v = float(v)
    if math.isnan(v) or math.isinf(v):
        return 2 ** 30
    return int(round(v * scale))


def q_of(point_coords, param_row):
    """homogeneous point record for TLC: val name -> list of fine-unit ints, w = 1"""
    val = {n: [quant(c) for c in cs] for n, cs in point_coords.items()}
    for n, t in param_row.items():
        val[n] = [quant(t)]          # (integer rows: t * F; animation frames use fractional parameter values)
    return {"val": val, "w": 1}

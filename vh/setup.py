"""./check --setup: parse every specification with SANY; nothing is fetched, nothing kept under /tmp."""
import glob, os, sys
from . import tlc


def run():
    bad = 0
    mods = sorted(glob.glob(os.path.join(tlc.SPEC, "*.tla")))
    for m in mods:
        name = os.path.basename(m)[:-4]
        ok, out = tlc.sany(name)
        if not ok:
            bad += 1
            print("SANY FAILED", name)
            print(out[-2000:])
    print("setup: %d modules parsed, %d failed" % (len(mods), bad))
    os.makedirs(os.path.join(tlc.VERIF, "evidence"), exist_ok=True)
    return 2 if bad else 0

"""Pure helpers on domain-expression terms (no torch): slopes, free variables, space variables."""


def slopes(a):
    k = a.get("k") or {}
    return {n: s for n, s in (k.items() if isinstance(k, dict) else []) if s != 0}


def aff_vars(av):
    vs = []
    for a in (av if isinstance(av, list) else [av]):
        for n in slopes(a):
            if n not in vs:
                vs.append(n)
    return vs


def space_vars(e):
    k = e["k"]
    if k in ("interval", "point", "par", "tri", "circle", "sphere", "poly", "mesh"):
        return [e["v"]]
    if k in ("union", "cut", "and"):
        return space_vars(e["l"])
    if k == "prod":
        return space_vars(e["l"]) + space_vars(e["r"])
    return space_vars(e["d"])


def free_vars(e):
    k = e["k"]
    if k == "interval":
        return set(aff_vars([e["lo"], e["hi"]]))
    if k == "point":
        return set(aff_vars(e["p"]))
    if k in ("par", "tri"):
        return set(aff_vars(e["o"] + e["a"] + e["b"]))
    if k in ("circle", "sphere"):
        return set(aff_vars(e["c"] + [e["r"]]))
    if k in ("poly", "mesh"):
        return set()
    if k in ("union", "cut", "and"):
        return free_vars(e["l"]) | free_vars(e["r"])
    if k == "prod":
        return (free_vars(e["l"]) - set(space_vars(e["r"]))) | free_vars(e["r"])
    if k == "trans":
        return free_vars(e["d"]) | set(aff_vars(e["t"]))
    if k == "rot":
        return free_vars(e["d"]) | set(aff_vars(e["p"])) | ({e["an"], e.get("an2", "")} - {""} if e.get("m") == "quarter" else set())
    return free_vars(e["d"])



"""Verification harness for torchphysics: TLA+ specifications decide, Python only drives and records."""

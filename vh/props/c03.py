"""C03 - differential operators equal the analytic derivatives, row by row."""
import json

RULE = ("TLC enumerates polynomial programs (1-3 terms from 16 mixed monomials of degree <= 3, coefficients -2/1/3; vector "
        "and matrix fields) x ten operators x every choice and order of derivative variable groups x three integer rows, "
        "float64 and float32; non-trivial = program with a non-zero expected derivative")


def run(ctx):
    if ctx.replay:
        scen = ctx.replay_scenarios()
    else:
        scen = ctx.gen("Gen_C03", "Gen_C03" if ctx.quick else "Gen_C03_big", timeout=900)
    traces = ctx.drive("c03", scen, timeout=3000)
    ctx.validate("Trace_C03", traces, timeout=3000)
    ctx.rule = RULE
    ctx.exhaustive = True
    ctx.extra["evaluations"] = len(traces)
    ctx.extra["distinct_nontrivial"] = sum(1 for t in traces if any(any(v != 0 for v in r) for r in t.get("batch", [])))
    for t in traces:
        if t["scenario"]["op"] in ("laplacian", "jac") and t.get("batch") and any(any(v != 0 for v in r) for r in t["batch"]):
            ctx.sample({"op": t["scenario"]["op"], "F": t["scenario"]["F"], "groups": t["scenario"]["gs"], "rows": t["scenario"]["rows"], "result": t["batch"]})
            if len(ctx.samples) >= 2:
                break
    ctx.assumptions += ["programs are polynomials (transcendental programs are outside the exact universe); results are exact integers in float64 and float32"]

"""C11 - samplers follow their named laws: uniform, even grid, Gaussian, LHS."""
import json

RULE = ("TLC chooses law x expression x partition: uniform (n and density) on 11 primitives, 6 Boolean combinations and 10 "
        "transformed domains (8x8 boxes, masses by an 8x8 sub-lattice of the denotation), intervals (32 bins), boundary curves "
        "(circle quadrants, polygon edges by exact length shares), grid evenness, Gaussian on boxes (Phi table), Latin "
        "hypercube slabs; non-trivial = every run (N >= 400 points)")


def run(ctx):
    if ctx.replay:
        scen = ctx.replay_scenarios()
    else:
        scen = ctx.gen("Gen_C11", "Gen_C11")
        if not ctx.quick:
            scen = [dict(s, rep=r) for r in range(4) for s in scen]
    traces = ctx.drive("c11", scen, timeout=3000)
    ctx.validate("Trace_C11", traces, timeout=3000)
    ctx.rule = RULE
    ctx.extra["evaluations"] = len(traces)
    ctx.extra["samples_drawn"] = sum(t.get("N", 0) for t in traces)
    ctx.extra["distinct_nontrivial"] = len(traces)
    for t in traces:
        if t["scenario"]["check"] == "uniform2" and t.get("counts"):
            ctx.sample({"expr": t["scenario"]["expr"], "law": t["scenario"]["law"], "N": t["N"], "counts": t["counts"][:6]})
            break
    ctx.assumptions += ["statistical decision at z = 6 (false-alarm probability < 1e-8 per cell); biases below ~2-3% of a cell's mass are not detectable at N = 4096",
                        "cell masses of 2-D domains by lattice counting (8x8 per unit box) with explicit slack for boundary-cut boxes"]

"""C13 - user functions receive their arguments by name."""
import json

RULE = ("TLC enumerates EVERY signature with <= 3 (quick) / 4 (thorough) positional-or-keyword parameters over a pool of "
        "4 names with every defaults suffix, for UserFunction and DomainUserFunction; per signature one call and one "
        "partial evaluation (+ follow-up call) for every subset of 5 names; plus -simulate histories of wrap/call/"
        "partially_evaluate/set_default/remove_default/re-wrap/deepcopy; non-trivial = signature with >= 2 parameters")


def run(ctx):
    q = ctx.quick
    ctx.mc("MC_UserFun", workers=4, note="wrapper heap with aliasing (Impl) against Abs: frame conditions and the partial-evaluation law")
    ctx.mc("MC_UserFun", "MC_UserFun_pe_nocopy", workers=2, expect_violation="OK")
    ctx.mc("MC_UserFun", "MC_UserFun_defaults_head", workers=2, expect_violation="OK")
    if ctx.replay:
        scen = ctx.replay_scenarios()
    else:
        scen = ctx.gen("Gen_C13", "Gen_C13_exh" if q else "Gen_C13_exh4", timeout=900)
        scen += ctx.gen("Gen_C13", "Gen_C13_sim", simulate="num=%d" % (150 if q else 2000), depth=14)
    traces = ctx.drive("c13", scen)
    ctx.validate("Trace_C13", traces)
    ctx.rule = RULE
    ctx.extra["evaluations"] = sum(len(t.get("events", [])) for t in traces)
    ctx.events = ctx.extra["evaluations"]
    ctx.extra["distinct_nontrivial"] = len({json.dumps(t["scenario"].get("sig")) + t["scenario"]["cls"] for t in traces
                                             if len(t["scenario"].get("sig") or []) >= 2})
    ctx.exhaustive = False
    for t in traces:
        if len(t["scenario"].get("sig") or []) == 3:
            ctx.sample({"cls": t["scenario"]["cls"], "sig": t["scenario"]["sig"],
                        "events": [{k: e[k] for k in ("a", "w", "M", "R", "res", "recv", "ret", "recv2", "ret2")} for e in t["events"][40:44]]})
            break
    for t in traces:
        if not t["scenario"].get("sig") and len(t.get("events", [])) > 8:
            ctx.sample({"cls": t["scenario"]["cls"], "events": [{k: e[k] for k in ("a", "w", "M", "names", "res", "ret")} for e in t["events"]]})
            break
    ctx.assumptions += ["the generated user function records locals() and returns sum P[i]*arg_i, so its result reveals which value reached which parameter"]

"""C07 - training through the Solver equals the reference optimisation loop."""
import json

RULE = ("TLC enumerates configurations (9 sets of 1-3 training conditions: data fit, inverse-parameter PINN, parameter "
        "penalty, adaptive point weights; weights 1/2, 1; with/without a validation condition; SGD lr 1/4, 1/2; momentum 0, "
        "1/2; no scheduler / StepLR(gamma 1/2, step 1-2, frequency 1-2); start a0 = +-1), computes the reference trajectory "
        "and keeps those inside the 32-bit rational budget; each is trained with the real Solver + Trainer; non-trivial = "
        "configuration whose learnables move")


def run(ctx):
    ctx.mc("MC_Training", workers=2, note="reference loop invariants: each condition once per step with the step index, validation stutters on learnable state, adaptive weights never decrease, lr schedule")
    if ctx.replay:
        scen = ctx.replay_scenarios()
    else:
        scen = ctx.gen("Gen_C07", "Gen_C07", timeout=900)
        if ctx.quick:            # a seeded random sample (a fixed stride aliases with the enumeration order of the factors)
            long = [s for s in scen if s["cfg"]["N"] > 100]          # the long schedule-only run is always kept
            rest = [s for s in scen if s["cfg"]["N"] <= 100]
            # stratified by the kinds of the training conditions, the validation condition, refit and scheduler: every class is present
            key = lambda s: json.dumps([[c["kind"] for c in s["cfg"]["train"]], [c["kind"] + str(c.get("share", 0)) for c in s["cfg"]["val"]],
                                        s["cfg"]["refit"], s["cfg"]["ssize"] > 0, s["cfg"]["mun"]])
            # (refitted runs whose adaptive weights still move after the second start are few: all of them are kept)
            moving = [s for s in rest if s["cfg"]["refit"] and any(c["kind"] == "adapt" and (c["p"], c["q"]) != (1, 0) for c in s["cfg"]["train"])]
            rest = [s for s in rest if s not in moving]
            scen = long + moving + ctx.stratified(rest, 0.12, key=key, min_per=2)
            # the driver derives two history switches from the position (late weights: every 3rd, eval between fits: 2 of 4): give the
            # refitted runs with adaptive weights consecutive positions so that both settings of eval_between occur
            scen.sort(key=lambda s: (not (s["cfg"]["refit"] and any(c["kind"] == "adapt" for c in s["cfg"]["train"])), json.dumps(s, sort_keys=True)))
    traces = ctx.drive("c07", scen, timeout=3000, shards=12)
    ctx.validate("Trace_C07", traces, timeout=3000)
    ctx.rule = RULE
    ctx.extra["evaluations"] = len(traces)
    ctx.extra["training_steps"] = sum(sum(1 for e in t.get("log", []) if e["e"] == "step") for t in traces)
    ctx.extra["distinct_nontrivial"] = len(traces)
    for t in traces:
        if len(t["scenario"]["cfg"]["train"]) == 3 and t.get("log"):
            ctx.sample({"cfg": t["scenario"]["cfg"], "log": t["log"][:8]})
            break
    ctx.assumptions += ["float64 affine model, dyadic learning rates / momentum / data: every learnable is an exact rational the driver recovers with Fraction.limit_denominator(2^24)",
                        "SGD(+momentum) and StepLR only: Adam / LBFGS states are not exactly representable"]

"""C18 - the bounding box encloses the domain."""
import json
from ..pipeline import geo_sig

RULE = ("TLC generates primitives, boundaries, transforms (translations, six rational rotations about three points), "
        "products and all depth-1 Boolean combinations, each with a batch of three parameter rows; bounding_box is recorded "
        "for the batch and per row, plus NormalizationLayer images of lattice points; non-trivial = expression with >= 10 lattice points inside")


def run(ctx):
    if ctx.replay:
        scen = ctx.replay_scenarios()
    else:
        scen = ctx.gen("Gen_Attr", "Gen_Attr_all", timeout=900)
        seen, out = set(), []
        for s in scen:
            key = json.dumps(s["expr"], sort_keys=True)
            if key not in seen:
                seen.add(key)
                out.append(dict(s, bind={}, dens=[]))
        if ctx.quick:       # all primitives, every 4th composite
            prim = [s for s in out if s["expr"]["k"] in ("par", "tri", "circle", "interval", "sphere", "poly", "mesh")]
            rest = [s for s in out if s["expr"]["k"] not in ("par", "tri", "circle", "interval", "sphere", "poly", "mesh")]
            nested = [s for s in rest if (s["expr"]["k"] == "trans" and s["expr"]["d"]["k"] == "trans")       # (few: always kept)
                      or (s["expr"]["k"] == "rot" and s["expr"].get("m") in ("z345", "x345", "y90", "zx"))]       # 3-D rotations
            rest = [s for s in rest if s not in nested]
            out = prim + nested + ctx.stratified(rest, 0.25, key=lambda s: geo_sig(s["expr"], False))
        scen = out
    traces = ctx.drive("geoattr", scen, timeout=3000)
    ctx.validate("Trace_C18", traces, timeout=3000)
    ctx.rule = RULE
    ctx.extra["evaluations"] = sum(1 + len(t.get("single", [])) for t in traces)
    ctx.extra["distinct_nontrivial"] = len(traces)
    for t in traces:
        if t["scenario"]["expr"]["k"] in ("rot", "union") and t.get("box"):
            ctx.sample({"expr": t["scenario"]["expr"], "rows": t["prm"], "box_fine_units": t["box"], "single": [x["box"] for x in t["single"]]})
            if len(ctx.samples) >= 2:
                break
    ctx.assumptions += ["enclosure is judged on a 19x19 lattice of the denoted set per parameter row (+3/256 tolerance); tightness against exact boxes of primitives"]

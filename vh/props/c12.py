"""C12 - Points and Space behave as a table with named column groups."""
import json

RULE = ("TLC enumerates the index universe (every row selector: ints incl. negative, slices, all boolean masks, index "
        "tensors, Ellipsis x every column selector: name, every ordered list/tuple of distinct names, every name slice) "
        "on a one-axis and a two-axis table, and -simulate histories of get/set/join/cat/repeat/unsqueeze/arithmetic/"
        "equality/space algebra/coordinates round trip; non-trivial = event whose result differs from its operand")


def run(ctx):
    q = ctx.quick
    ctx.mc("MC_PointsTable", "MC_PointsTable" if q else "MC_PointsTable_thorough", workers=8, timeout=1800, note="algebraic laws of the table semantics over all small tables (round trip, get/select commute, join assoc., space product)")
    if ctx.replay:
        scen = ctx.replay_scenarios()
    else:
        scen = ctx.gen("Gen_C12", "Gen_C12_exh")
        scen += ctx.gen("Gen_C12", "Gen_C12_sim", simulate="num=%d" % (300 if q else 4000), depth=12)
    traces = ctx.drive("c12", scen)
    ctx.validate("Trace_C12", traces)
    ctx.rule = RULE
    nev = sum(len(t.get("events", [])) for t in traces)
    ctx.events = nev
    ctx.extra["evaluations"] = nev
    ctx.extra["distinct_nontrivial"] = len({json.dumps(e.get("op"), sort_keys=True) + json.dumps(e["ins"][0]["sp"])
                                             for t in traces for e in t.get("events", [])
                                             if e.get("out") and e["out"] != e["ins"][0]})
    ctx.exhaustive = False
    for t in traces:
        ev = [e for e in t.get("events", []) if e["a"] == "get" and e["op"]["cs"]["k"] == "list" and len(e["op"]["cs"]["ns"]) > 1]
        if ev:
            ctx.sample({"op": ev[0]["op"], "in": ev[0]["ins"][0], "out": ev[0].get("out")})
            break
    for t in traces:
        if any(e["a"] == "set" for e in t.get("events", [])):
            ctx.sample({"history": [{"a": e["a"], "op": {k: v for k, v in (e.get("op") or {}).items() if k in ("t", "u", "sels", "cs", "n", "op")}} for e in t["events"]]})
            break
    ctx.assumptions += ["cells are distinct integer ids, so every result reveals where each cell came from",
                        "index universe: row part per batch axis in {int, slice, index tensor, boolean mask, Ellipsis}, column part in {name, tuple/list of names, name slice, omitted}; on two batch axes advanced row indices are not combined with column selections"]

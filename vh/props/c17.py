"""C17 - partially evaluating a domain is the same as supplying the parameters."""
import json
from ..pipeline import geo_sig

RULE = ("every parameter-dependent expression TLC generates (primitives, boundaries, single boundary points, transforms with "
        "dependent vectors / rotation points, products, depth-1 Boolean combinations) x every non-empty subset of its free "
        "variables x two value assignments; D(**values) is compared with D at the joint parameters; non-trivial = binding "
        "that leaves at least one variable free or changes the set")


def run(ctx):
    ctx.mc("MC_Geometry", "MC_Geometry" if ctx.quick else "MC_Geometry_thorough", workers=8, timeout=1800,
           note="substitution law In(PE(e,b),Q) = In(e,Q+b) and FreeVars(PE(e,b)) = FreeVars(e) minus dom b over all depth<=1 parameter-dependent expressions and bindings")
    if ctx.replay:
        scen = ctx.replay_scenarios()
    else:
        scen = ctx.gen("Gen_Attr", "Gen_Attr_all", timeout=900)
        scen = [dict(s, dens=[], norm=False) for s in scen if s.get("bind")]
        if ctx.quick:
            scen = ctx.stratified(scen, 0.2, key=lambda s: geo_sig(s["expr"], False) + "|" + ",".join(sorted(s["bind"])))
    traces = ctx.drive("geoattr", scen, timeout=3000)
    ctx.validate("Trace_C17", traces, timeout=3000)
    ctx.rule = RULE
    ctx.extra["evaluations"] = len(traces)
    ctx.extra["distinct_nontrivial"] = sum(1 for t in traces if t.get("pe") and len(t["pe"].get("bits", [])) > 0)
    for t in traces:
        if t.get("pe") and t["pe"].get("nv"):
            ctx.sample({"expr": t["scenario"]["expr"], "bind": t["scenario"]["bind"], "necessary_variables": [t["nv"], t["pe"]["nv"]],
                        "volume_after": t["pe"].get("vol"), "volume_joint": t["pe"]["full"].get("vol")})
            break
    ctx.assumptions += ["agreement of volume / bounding box is between two recordings of the real code (D(**v) at the remaining rows, D at the joint rows), decided by TLC at 4/1024 resp. 2/256 (+2^-8 relative)",
                        "membership after binding is judged against the denotation, as in C05"]

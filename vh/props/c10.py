"""C10 - volume() is the true measure of the domain."""
import json

RULE = ("TLC generates primitives, boundaries, transforms, independent products, unions declared disjoint and cuts declared "
        "contained (declarations verified by TLC on a lattice), each with three parameter rows and densities; the real "
        "volume()/set_volume()/density sampling are recorded; non-trivial = expression whose measure is fixed by the property")


def run(ctx):
    if ctx.replay:
        scen = ctx.replay_scenarios()
    else:
        scen = ctx.gen("Gen_Attr", "Gen_Attr_vol", timeout=900)
        seen, out = set(), []
        for s in scen:          # one scenario per expression is enough for volumes
            key = json.dumps(s["expr"], sort_keys=True)
            if key not in seen:
                seen.add(key)
                s = dict(s, bind={}, norm=False)
                out.append(s)
        scen = out            # quick = thorough universe here (a stride once dropped the thin shapes: no subsampling)
    traces = ctx.drive("geoattr", scen, timeout=3000)
    ctx.validate("Trace_C10", traces, timeout=3000)
    ctx.rule = RULE
    ctx.extra["evaluations"] = sum(len(t.get("vol", [])) + len(t.get("counts", [])) for t in traces)
    ctx.extra["distinct_nontrivial"] = len(traces)
    for t in traces:
        if t["scenario"]["expr"]["k"] in ("circle", "bd") and t.get("vol"):
            ctx.sample({"expr": t["scenario"]["expr"], "rows": t["prm"], "volume_x1024": t["vol"], "counts": t["counts"][:2]})
            if len(ctx.samples) >= 2:
                break
    ctx.assumptions += ["pi is bracketed by 3216/1024 and 3217/1024; volumes compared at relative tolerance 2^-8",
                        "side lengths of slanted polygons by integer square root at 1/1024 resolution"]

"""C20 - Fourier layers are shift-equivariant, resolution-consistent convolutions."""
import json

RULE = ("TLC enumerates configurations: 1-D (N in 4,5,8,12; 1-2 channels; modes 2,3,5,9 = below/equal/above N div 2 + 1; "
        "linear and skip connections on/off; single layer or 2-layer FNO with Tanh; ALL shifts; refinement x2, x3 for "
        "band-limited inputs) and 2-D (three resolutions, 1 or 3 channels, three mode pairs, six shifts); random weights "
        "and fields (seeded); grids oversampling the kept modes 8+ times (N = 16, 24, 33; 2-D 16x8, 8x24, 16x17); FNO inputs of two "
        "variables presented in the other order; non-trivial = every configuration")


def run(ctx):
    ctx.mc("MC_Fourier", workers=2, note="mode padding/truncation bookkeeping is a diagonal frequency map for all spectrum lengths <= 33 and mode counts <= 20; refinement-consistent below the kept band")
    if ctx.replay:
        scen = ctx.replay_scenarios()
    else:
        scen = ctx.gen("Gen_C20", "Gen_C20")
        # quick = thorough universe (no subsampling)
    traces = ctx.drive("c20", scen, timeout=3000)
    ctx.validate("Trace_C20", traces, timeout=3000)
    ctx.rule = RULE
    ctx.extra["evaluations"] = sum(1 + len(t.get("shifts", [])) + len(t.get("refine", [])) for t in traces)
    ctx.extra["distinct_nontrivial"] = len(traces)
    for t in traces:
        if t["scenario"]["d"] == 1 and t.get("shifts"):
            ctx.sample({"config": {k: t["scenario"][k] for k in ("d", "N", "ch", "modes", "lin", "skip", "kind")}, "shift": t["shifts"][0]["s"],
                        "y0": t["y0"][0][:4], "y_shifted": t["shifts"][0]["y"][0][:4]})
            break
    ctx.assumptions += ["fields in fixed point 2^-12, tolerance 6 units (float32 FFT noise is ~1e-6)",
                        "batch normalisation (space_resolution) is excluded: its docstring gives up resolution independence"]

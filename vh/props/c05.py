"""C05 - membership tests agree with the set the domain expression denotes."""
import json
from ..pipeline import geo_sig
from ..astutil import free_vars

RULE = ("TLC generates domain expressions (all of depth <= 1 over a pool of 11 2-D primitives incl. slanted, clockwise and "
        "parameter-dependent ones, intervals, spheres, 4 translation vectors, 6 rational rotations about 3 points, "
        "products incl. a dependent one; plus -simulate grown expressions up to depth 3/4); each is queried on a lattice "
        "of points with odd fine-unit offsets, every point with its own parameter row; boundary objects additionally with "
        "their own boundary samples; non-trivial = expression whose judged points contain both inside and outside points")


def scenarios(ctx, stride_q=3, nsim_q=40):
    scen = ctx.gen("Gen_Geo", "Gen_Geo_exh")
    if ctx.quick:
        # classes: operator / primitive kinds, and whether the expression depends on parameters at all
        # ... and whether it scales with a parameter by orders of magnitude
        big = lambda s: ("|big" if '"t": 10000' in json.dumps(s["expr"]) else "") + ("|negr" if '"t": -1' in json.dumps(s["expr"]) else "")
        flagged = [s for s in scen if s["expr"].get("contained") or s["expr"].get("disjoint")]       # (few: always kept)
        scen = [s for s in scen if s not in flagged]
        scen = flagged + ctx.stratified(scen, 1.0 / stride_q, key=lambda s: geo_sig(s["expr"], False) + ("|p" if free_vars(s["expr"]) else "") + big(s))
    sim = ctx.gen("Gen_Geo", "Gen_Geo_sim" if ctx.quick else "Gen_Geo_sim4", simulate="num=%d" % (nsim_q if ctx.quick else 600), depth=6)
    return scen + sim


def run(ctx):
    if ctx.replay:
        scen = ctx.replay_scenarios()
    else:
        scen = scenarios(ctx)
        for s in scen:
            s["boundary"] = s["expr"]["k"] in ("par", "tri", "circle", "interval", "sphere", "poly", "mesh", "union", "cut", "and", "trans", "rot")
    traces = ctx.drive("c05", scen, timeout=3000)
    ctx.validate("Trace_C05", traces, timeout=3000)
    ctx.rule = RULE
    ctx.extra["evaluations"] = sum(len(t.get("bits", [])) + len(t.get("bbits", [])) + sum(len(o["bits"]) for o in t.get("own", [])) for t in traces)
    ctx.extra["distinct_nontrivial"] = len({json.dumps(t["scenario"]["expr"], sort_keys=True) for t in traces
                                             if len(set(t.get("bits", []))) == 2})
    ctx.events = ctx.extra["evaluations"]
    for t in traces:
        if t["scenario"]["expr"]["k"] in ("cut", "rot") and len(set(t.get("bits", []))) == 2:
            ctx.sample({"expr": t["scenario"]["expr"], "points": t["pts"][:3], "bits": t["bits"][:3]})
            if len(ctx.samples) >= 2:
                break
    ctx.assumptions += ["membership is judged only for points whose +-2/256 axis stencil is not mixed (not within tolerance of the boundary)",
                        "universe: shape data in quarter units inside [-3,3]^d, rational rotation matrices, parameters t,k in {0,1,2}, at most one non-axis rotation per path (32-bit budget of the oracle)"]

"""C14 - conditions are isolated from each other and repeatable."""
from . import c04

RULE = ("TLC generates histories (-simulate over the construct/evaluate state machine): up to 3 of 6 candidate conditions "
        "(PINN / mean / periodic, static and non-static samplers on different point sets) that SHARE two user dictionaries, "
        "constructed and evaluated in every interleaving, each evaluated up to twice; plus (CondExt) histories of up to 3 of 6 "
        "DeepONet conditions sharing 2 networks and 3 function sets, evaluated with the Solver's iteration numbers (step number "
        "or None), with the user fixing a branch input in between; non-trivial = history with >= 2 conditions")


def run(ctx):
    ctx.mc("MC_FuncSet", workers=2, note="training-time branch evaluation: every evaluation uses the current batch of its own function set (2 networks, 2 function sets, step numbers and None)")
    ctx.mc("MC_FuncSet", "MC_FuncSet_skip", workers=2, expect_violation="OwnFunctions")
    c04.run(ctx, mode="hist")
    ctx.rule = RULE
    ctx.exhaustive = False

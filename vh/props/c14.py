"""C14 - conditions are isolated from each other and repeatable."""
from . import c04

RULE = ("TLC generates histories (-simulate over the construct/evaluate state machine): up to 3 of 6 candidate conditions "
        "(PINN / mean / periodic, static and non-static samplers on different point sets) that SHARE two user dictionaries, "
        "constructed and evaluated in every interleaving, each evaluated up to twice; non-trivial = history with >= 2 conditions")


def run(ctx):
    c04.run(ctx, mode="hist")
    ctx.rule = RULE
    ctx.exhaustive = False

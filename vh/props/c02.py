"""C02 - samplers return exactly n points per parameter row, paired in order."""
import json, os

RULE = ("TLC enumerates sampler ASTs (7 leaf kinds x fixed / moving interval x n in 1..3, products incl. a dependent first "
        "factor, sums, appends, static; depth <= 2) x parameter tables of 0/1/3 rows; each is sampled twice on real sampler "
        "objects plus a parameter-free call; non-trivial = composite sampler or k > 0")


def run(ctx):
    ctx.mc("MC_Samplers", workers=4, env={"OUT_FILE": os.path.join(ctx.work, "unused.ndjson")}, note="Impl (length attribute protocol, repeat_interleave/repeat, product evaluation order) => Abs row rules for all ASTs up to depth 2")
    for d in ("params_repeat", "dep_row0"):
        ctx.mc("MC_Samplers", "MC_Samplers_" + d, workers=2, env={"OUT_FILE": os.path.join(ctx.work, "unused.ndjson")}, expect_violation="AbsOK", note="deviation %s must break the model" % d)
    if ctx.replay:
        scen = ctx.replay_scenarios()
    else:
        scen = ctx.gen("Gen_C02", "Gen_C02")
        if ctx.quick:
            scen = ctx.stratified(scen, 1.0 / 3)
    traces = ctx.drive("c02", scen, timeout=3000)
    for t in traces:
        t["has_free"] = t.get("free") is not None
        if not t["has_free"]:
            t["free"] = {"rows": [], "exc": ""}
    ctx.validate("Trace_C02", traces, timeout=3000)
    ctx.rule = RULE
    ctx.extra["evaluations"] = sum(len(t.get("calls", [])) for t in traces)
    ctx.extra["distinct_nontrivial"] = sum(1 for t in traces if t["scenario"]["smp"]["k"] != "leaf" or t["scenario"]["k"] > 0)
    ctx.exhaustive = not ctx.quick
    for t in traces:
        if t["scenario"]["smp"]["k"] == "prod" and t["scenario"]["k"] == 3 and t.get("calls") and t["calls"][0]["rows"]:
            ctx.sample({"sampler": t["scenario"]["smp"], "params": t["P"], "rows": t["calls"][0]["rows"][:4]})
            break
    ctx.assumptions += ["cells are decoded to ids: a point of the moving interval [10t, 10t+1] reveals t; data samplers hold k/16; grid rank from the interior grid position",
                        "len() is compared before the first call and after a parameter-free call"]

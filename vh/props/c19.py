"""C19 - checkpoints and saved weights restore training exactly."""
import json, os

RULE = ("TLC enumerates C07 configurations with momentum and schedulers x check interval in {1, 2} x every interruption "
        "step k < N = 4 at which a checkpoint is written, keeping those inside the rational budget; each = three real fits "
        "(uninterrupted with the weight-saving callback; interrupted at k; resumed from the file in fresh objects); optimizers: SGD "
        "(+momentum) and the two-evaluation optimizer of Training.tla (two closure calls per step, a python int in its state); "
        "non-trivial = every scenario")


def run(ctx):
    if ctx.replay:
        scen = ctx.replay_scenarios()
    else:
        scen = ctx.gen("Gen_C07", "Gen_C19", timeout=900)
        if ctx.quick:
            two = [s for s in scen if s["cfg"].get("opt") == "two"]
            sgd = [s for s in scen if s["cfg"].get("opt") != "two"]
            scen = sorted(ctx.rng.sample(sgd, min(len(sgd), 70)) + ctx.rng.sample(two, min(len(two), 30)), key=lambda s: json.dumps(s, sort_keys=True))
    tmp = os.path.join(ctx.work, "tmp")
    os.makedirs(tmp, exist_ok=True)
    traces = ctx.drive("c19", scen, timeout=3000, shards=14, env={"VERIF_TMP": tmp})
    ctx.validate("Trace_C19", traces, timeout=3000)
    ctx.rule = RULE
    ctx.extra["evaluations"] = 3 * len(traces)
    ctx.extra["distinct_nontrivial"] = len(traces)
    for t in traces:
        if t.get("run2") and t["scenario"]["cfg"]["mun"]:
            ctx.sample({"cfg": t["scenario"]["cfg"], "resumed_final": t["run2"], "uninterrupted_final": t["run0"], "files": t["files"]})
            break
    ctx.assumptions += ["as C07 (exact rationals); the crash is modelled by discarding every object of the interrupted run and rebuilding model, conditions, solver and trainer before resuming from the file",
                        "weights_only=False checkpoints; sampling is deterministic (static data samplers)"]

"""C16 - data loaders keep pairing and cover every datum."""
RULE = ("TLC enumerates every loader configuration (kind x data-set sizes x batch sizes incl. oversize and -1 x "
        "drop_last x shuffle flags) up to the tier's bound; each is one pass over the REAL loader plus DataCondition "
        "aggregation runs; a trace is non-trivial when it has >= 2 batches")


def run(ctx):
    q = ctx.quick
    # (A) design level: Impl arithmetic => Abs, all sizes; plus the two fixed deviations must be visible to the model
    ctx.mc("MC_DataLoaders", "MC_DataLoaders" if q else "MC_DataLoaders_thorough", workers=4,
           note="Impl index arithmetic => SizeOK/CoverOK/LenOK for every size tuple; shared-trunk gaps only where GCD of the periods > 1")
    ctx.mc("MC_DataLoaders", "MC_DataLoaders_devdiv", workers=2, expect_violation="CoverInv",
           note="vacuity/binding: with deviation dl_unique_divisor the model must violate CoverInv")
    ctx.mc("MC_DataLoaders", "MC_DataLoaders_devover", workers=2, expect_violation="CoverInv",
           note="vacuity/binding: with deviation dl_unique_oversize the model must violate CoverInv")
    # (B) scenarios by TLC
    scen = ctx.gen("Gen_C16", "Gen_C16_quick" if q else "Gen_C16_thorough")
    if ctx.replay:
        import json
        scen = ctx.replay_scenarios()
    # (C) real code
    traces = ctx.drive("c16", scen)
    # (D) verdict by TLC
    ctx.validate("Trace_C16", traces)
    ctx.rule = RULE
    ctx.exhaustive = True
    ctx.extra["evaluations"] = len(traces)
    ctx.extra["distinct_nontrivial"] = sum(1 for t in traces if len(t.get("batches", [])) >= 2)
    ctx.extra["bounds"] = {"tier": ctx.tier, "scenarios": len(scen)}
    for t in traces:
        if t["scenario"]["kind"] == "shared" and len(t.get("batches", [])) >= 2:
            ctx.sample({"scenario": {k: v for k, v in t["scenario"].items() if k not in ("agg", "d")},
                        "batches": [{"br": b["br"], "tr": b["tr"]} for b in t["batches"][:4]]})
            break
    for t in traces:
        if t["scenario"]["kind"] == "points" and len(t.get("batches", [])) >= 2:
            ctx.sample(t)
            break
    ctx.assumptions += ["branch/trunk/output tensors carry ids so every presented cell reveals (function, location)",
                        "DataCondition runs on an identity model in float64; losses are logged as exact rationals"]

"""C08 - models are row-wise functions of named variables."""
import json

RULE = ("TLC enumerates 36 model ASTs (FCN / Harmonic / Polynomial / QRES / Deep-Ritz leaves over four input-space orders, "
        "normalization + net, two-stage Sequential, Parallel, nested) x every permutation of the input variables x six "
        "row selections from a pool of 6 named rows x flat / two-axis batches x one presentation per missing variable; "
        "weights random per run (seeded); non-trivial = model with >= 2 input variables")


def run(ctx):
    ctx.mc("MC_Models", workers=2, note="Functional is preserved by Sequential / Parallel composition of functional parts; space derivations")
    if ctx.replay:
        scen = ctx.replay_scenarios()
    else:
        scen = ctx.gen("Gen_C08", "Gen_C08")
        if not ctx.quick:
            scen = [dict(s, rep=r) for r in range(6) for s in scen]
    traces = ctx.drive("c08", scen, timeout=3000)
    ctx.validate("Trace_C08", traces, timeout=3000)
    ctx.rule = RULE
    ctx.extra["evaluations"] = sum(len(t.get("pres", [])) for t in traces)
    ctx.extra["distinct_nontrivial"] = len(traces)
    for t in traces:
        if t["scenario"]["model"]["k"] == "par" and t.get("pres"):
            ctx.sample({"model": t["scenario"]["model"], "presentation": {k: t["pres"][0][k] for k in ("order", "rows", "axes")}, "obs": t["pres"][0]["obs"][:2]})
            break
    ctx.assumptions += ["outputs compared in fixed point 2^-12 with tolerance 8 units (BLAS may reorder sums between batch sizes)",
                        "two-axis presentations that a model rejects are accepted as 'not supported'; when it answers, the answer must be functional"]

"""C09 - DeepONet output is the branch-trunk inner product; the fast trunk path is equivalent."""
import json

RULE = ("TLC enumerates 48 integer DeepONet configurations (output dim 1-2, 1-3 neurons per component, two trunk and two "
        "branch architectures, trunk input dim 1-2) each with 10 batches (1-3 functions x 1-3 locations in different "
        "compositions; tensor / Points / callable / FunctionSet / sum of FunctionSets as branch input), a fix_input history and a fast-vs-plain probe; weights "
        "in -2..2 (seeded); non-trivial = every configuration")


def run(ctx):
    if ctx.replay:
        scen = ctx.replay_scenarios()
    else:
        scen = ctx.gen("Gen_C09", "Gen_C09")
        if not ctx.quick:
            scen = [dict(s, rep=r) for r in range(8) for s in scen]
    traces = ctx.drive("c09", scen, timeout=3000)
    ctx.validate("Trace_C09", traces, timeout=3000)
    ctx.rule = RULE
    ctx.extra["evaluations"] = sum(len(t.get("calls", [])) for t in traces)
    ctx.extra["distinct_nontrivial"] = len(traces)
    for t in traces:
        if t.get("calls"):
            c = t["calls"][1]
            ctx.sample({"config": {k: t["scenario"][k] for k in ("dim", "neurons", "th", "bh", "tdim")}, "functions": c["fids"], "locations": c["lids"], "B": c["B"], "T": c["T"], "Out": c["Out"]})
            break
    ctx.assumptions += ["integer networks (weights -2..2, Identity branch / Square trunk activations, float64) make features, outputs, derivatives and gradients exact integers"]

"""C06 - boundary normals are finite outward unit vectors."""
import json
from ..pipeline import geo_sig
from . import c05

RULE = ("boundaries of all primitives of the pool (slanted, clockwise, parameter-dependent; interval; spheres) and of "
        "TLC-generated unions/cuts/intersections nested up to depth 3/4; normals at random and grid boundary samples (grid "
        "samples hit corners); non-trivial = sample that is judged (not skipped as corner of the Boolean combination)")


def boolean_only(e):
    k = e["k"]
    if k in ("union", "cut", "and"):
        return boolean_only(e["l"]) and boolean_only(e["r"])
    return k in ("par", "tri", "circle", "interval", "sphere", "poly", "mesh")


def run(ctx):
    if ctx.replay:
        scen = ctx.replay_scenarios()
    else:
        base = c05.scenarios(ctx, stride_q=1, nsim_q=150)
        scen = [{"expr": s["expr"]} for s in base if boolean_only(s["expr"])]
        # unions DECLARED disjoint and cuts DECLARED contained (the declaration is verified by TLC in Gen_Attr): the boundary objects
        # may take another path when the flag is set
        flagged = [{"expr": s["expr"]} for s in ctx.gen("Gen_Attr", "Gen_Attr_vol", timeout=900)
                   if s["expr"]["k"] in ("union", "cut") and (s["expr"].get("disjoint") or s["expr"].get("contained")) and boolean_only(s["expr"])]
        seen = set()
        flagged = [s for s in flagged if not (json.dumps(s, sort_keys=True) in seen or seen.add(json.dumps(s, sort_keys=True)))]
        scen += flagged if not ctx.quick else ctx.stratified(flagged, 0.5, key=lambda s: geo_sig(s["expr"], False))
        if ctx.quick:
            prim = [s for s in scen if s["expr"]["k"] not in ("union", "cut", "and")]
            rest = [s for s in scen if s["expr"]["k"] in ("union", "cut", "and")]
            scen = prim + ctx.stratified(rest, 1.0 / 3, key=lambda s: geo_sig(s["expr"], False))
    traces = ctx.drive("c06", scen, timeout=3000)
    ctx.validate("Trace_C06", traces, timeout=3000)
    ctx.rule = RULE
    ctx.extra["evaluations"] = sum(len(st["pts"]) for t in traces for st in t.get("sets", []))
    ctx.extra["distinct_nontrivial"] = len(traces)
    for t in traces:
        if t["scenario"]["expr"]["k"] == "cut" and t.get("sets") and t["sets"][0]["pts"]:
            ctx.sample({"expr": t["scenario"]["expr"], "points": t["sets"][0]["pts"][:3], "normals_x256": t["sets"][0]["normals"][:3]})
            break
    ctx.assumptions += ["outwardness is judged with a step of 8/256 along the reported normal on the exact denotation; samples within 16/256 of a second primitive's boundary are skipped (counted in evidence)"]

"""C15 - static and adaptive samplers follow their documented state machines."""
import json

RULE = ("TLC generates call histories (sample_points / next / make_static(iv) on static and plain samplers; "
        "sample_points(loss) on the adaptive threshold sampler): all histories of length 4 over the full alphabet "
        "plus random long ones (-simulate); each is replayed on ONE real sampler object; non-trivial = history "
        "contains at least one cached answer and one fresh draw (static) or one loss-driven call (adaptive)")


def run(ctx):
    q = ctx.quick
    ctx.mc("MC_Static", workers=4, note="refinement StaticImpl => StaticAbs, intervals 1..5 and inf, histories <= 12 with next/make_static")
    for d in ("static_le", "static_reset_one"):
        ctx.mc("MC_Static", "MC_Static_" + d, workers=2, expect_violation="RunInv", note="deviation %s must break the model" % d)
    ctx.mc("MC_Static", "MC_Static_static_keep_cache", workers=2, expect_violation="Refines")
    ctx.mc("MC_Adaptive", workers=4, note="in-place replacement rule => Abs (count constant, exactly the rows at/above threshold kept, others fresh)")
    for d in ("ad_le", "ad_max_only", "ad_high", "ad_newonly"):
        ctx.mc("MC_Adaptive", "MC_Adaptive_" + d, workers=2, expect_violation="AbsOK")
    if ctx.replay:
        scen = ctx.replay_scenarios()
    else:
        scen = ctx.gen("Gen_C15", "Gen_C15_exh")
        n = 150 if q else 1500
        scen += ctx.gen("Gen_C15", "Gen_C15_sim", simulate="num=%d" % n, depth=26)
        scen += ctx.gen("Gen_C15", "Gen_C15_simad", simulate="num=%d" % (2 * n), depth=26)
        scen += ctx.gen("Gen_C15", "Gen_C15_simad6", simulate="num=%d" % n, depth=26)          # six rows: also as two parameter rows of three
    traces = ctx.drive("c15", scen)
    ctx.validate("Trace_C15", traces)
    # random variant: keep frequencies against the binomial acceptance region, decided by TLC
    rs = [{"kind": "random", "loss": l, "reps": 400 if q else 1500} for l in
          ([0, 1, 2, 3, 4], [2, 2, 2, 2], [0, 4, 4, 1], [1, 1, 3], [0, 1])]
    rs += [dict(r, seq=True) for r in rs]          # the same loss vectors as consecutive steps of one sampler object
    rt = ctx.drive("c15r", rs, shards=len(rs))
    ctx.validate("Trace_C15R", rt, shards=1)
    ctx.rule = RULE
    ctx.exhaustive = False
    ctx.extra["evaluations"] = len(traces) + len(rt)

    def nontrivial(t):
        ev = t.get("events", [])
        if t["scenario"]["kind"] == "adaptive":
            return any(e.get("loss") for e in ev[1:])
        rets = [e["ret"] for e in ev if e["a"] != "restatic"]
        return len(set(rets)) >= 2 and len(rets) > len(set(rets))
    ctx.extra["distinct_nontrivial"] = len({json.dumps(t["scenario"].get("ops"), sort_keys=True) + str(t["scenario"].get("iv0"))
                                             for t in traces if nontrivial(t)})
    for k in ("static", "adaptive"):
        for t in traces:
            if t["scenario"]["kind"] == k and nontrivial(t) and len(t["events"]) > 6:
                ctx.sample({"scenario": {a: b for a, b in t["scenario"].items() if a != "ops"}, "events": t["events"][:12]})
                break
    ctx.assumptions += ["point sets are identified by value: fresh random points differ from all earlier ones with probability 1",
                        "random variant: keep frequencies judged at z = 6 (false-alarm probability < 1e-8 per row)"]

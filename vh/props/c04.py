"""C04 - a condition's loss is reduce(error(residual)) on exactly its sampled points."""
import json

RULE = ("TLC enumerates single-condition scenarios: kind (PINN / mean / periodic) x 8 residual families (differences, "
        "products with an inverse parameter, a derivative, prime-weighted echo of all arguments, vector residual, left/right) "
        "x sampler space order x model input order x residual signature order x static / non-static sampler x n in {1,2,4}; "
        "each condition is evaluated twice; plus (CondExt) PIDeepONet x 3 function sets x 2 point sets x 4 residual families x "
        "static x signature order, DeepONet data conditions (norm inf/1/2, root 1/2, constrain function, full data set), integro "
        "conditions (3 residual families x integral point sets x static x space order), Deep-Ritz and parameter conditions, each "
        "evaluated at iterations 0, 0, 1; non-trivial = n >= 2")


def run(ctx, mode="single"):
    ctx.mc("MC_Cond", workers=2, note="by-name argument binding is independent of space / signature order; loss reductions; design-level interference of shared dictionaries (deviation cond_inplace_dict must violate)")
    ctx.mc("MC_Cond", "MC_Cond_inplace", workers=2, expect_violation="IsolationOK")
    if ctx.replay:
        scen = ctx.replay_scenarios()
    elif mode == "single":
        scen = ctx.gen("Gen_Cond", "Gen_Cond_single")
    else:
        scen = ctx.gen("Gen_Cond", "Gen_Cond_hist", simulate="num=%d" % (400 if ctx.quick else 5000), depth=8)
    ext = [x for x in scen if "fsets" in x]                  # replay of an extended-conditions scenario
    scen = [x for x in scen if "fsets" not in x]
    traces = ctx.drive("cond", scen, timeout=3000) if scen else []
    if traces:
        ctx.validate("Trace_Cond", traces, timeout=3000)
    # extended conditions (CondExt.tla): PIDeepONet / DeepONet data / integro / Deep-Ritz / parameter conditions
    if not ctx.replay:
        if mode == "single":
            ext = ctx.gen("Gen_CondX", "Gen_CondX_single")
        else:
            ext = ctx.gen("Gen_CondX", "Gen_CondX_hist", simulate="num=%d" % (250 if ctx.quick else 4000), depth=16)
            # ... and the enumerated scenarios with several conditions that share a data-function table
            ext += [x for x in ctx.gen("Gen_CondX", "Gen_CondX_single") if sum(1 for o in x["ops"] if o["a"] == "con") >= 2]
    xtraces = ctx.drive("condx", ext, timeout=3000) if ext else []
    if xtraces:
        ctx.validate("Trace_CondX", xtraces, timeout=3000)
    ctx.extra["extended_condition_traces"] = len(xtraces)
    traces = traces + xtraces
    ctx.rule = RULE
    ctx.exhaustive = mode == "single"
    ctx.extra["evaluations"] = sum(len(t.get("events", [])) for t in traces)
    ctx.events = ctx.extra["evaluations"]
    ctx.extra["distinct_nontrivial"] = sum(1 for t in traces if any(len(o.get("rows", [])) >= 2 or len(o.get("pts", [])) >= 2 for o in t["scenario"]["ops"]))
    for t in traces:
        evs = [e for e in t.get("events", []) if e["a"] == "ev" and e.get("recv")]
        if evs and "fsets" not in t["scenario"] and len(t["scenario"]["ops"][0]["rows"]) >= 2:
            ctx.sample({"ops": [{k: o[k] for k in ("a", "c", "kind", "res", "rows", "static", "order", "morder", "dict")} for o in t["scenario"]["ops"]],
                        "received": evs[0]["recv"], "loss": evs[0]["loss"]})
            break
    ctx.assumptions += ["affine integer models in float64, integer sample points from data samplers, affine integer data functions: every argument and loss is an exact small rational",
                        "DeepONet conditions run on integer DeepONets (weights -1..1, identity activations) whose output table is observed by a direct call; HPM and variational conditions are not driven"]

"""C04 - a condition's loss is reduce(error(residual)) on exactly its sampled points."""
import json

RULE = ("TLC enumerates single-condition scenarios: kind (PINN / mean / periodic) x 8 residual families (differences, "
        "products with an inverse parameter, a derivative, prime-weighted echo of all arguments, vector residual, left/right) "
        "x sampler space order x model input order x residual signature order x static / non-static sampler x n in {1,2,4}; "
        "each condition is evaluated twice; non-trivial = n >= 2")


def run(ctx, mode="single"):
    ctx.mc("MC_Cond", workers=2, note="by-name argument binding is independent of space / signature order; loss reductions; design-level interference of shared dictionaries (deviation cond_inplace_dict must violate)")
    ctx.mc("MC_Cond", "MC_Cond_inplace", workers=2, expect_violation="IsolationOK")
    if ctx.replay:
        scen = [json.load(open(ctx.replay))["trace"]["scenario"]]
        scen[0].pop("tid", None)
    elif mode == "single":
        scen = ctx.gen("Gen_Cond", "Gen_Cond_single")
    else:
        scen = ctx.gen("Gen_Cond", "Gen_Cond_hist", simulate="num=%d" % (400 if ctx.quick else 5000), depth=8)
    traces = ctx.drive("cond", scen, timeout=3000)
    ctx.validate("Trace_Cond", traces, timeout=3000)
    ctx.rule = RULE
    ctx.exhaustive = mode == "single"
    ctx.extra["evaluations"] = sum(len(t.get("events", [])) for t in traces)
    ctx.events = ctx.extra["evaluations"]
    ctx.extra["distinct_nontrivial"] = sum(1 for t in traces if any(len(o.get("rows", [])) >= 2 for o in t["scenario"]["ops"]))
    for t in traces:
        evs = [e for e in t.get("events", []) if e["a"] == "ev" and e.get("recv")]
        if evs and len(t["scenario"]["ops"][0]["rows"]) >= 2:
            ctx.sample({"ops": [{k: o[k] for k in ("a", "c", "kind", "res", "rows", "static", "order", "morder", "dict")} for o in t["scenario"]["ops"]],
                        "received": evs[0]["recv"], "loss": evs[0]["loss"]})
            break
    ctx.assumptions += ["affine integer models in float64, integer sample points from data samplers, affine integer data functions: every argument and loss is an exact small rational",
                        "Integro / HPM / DeepONet conditions are not driven"]

"""Run TLC / SANY and parse what they print.  Python never decides a property here:
it only transports traces to TLC and TLC's verdicts back."""
import os, re, shutil, subprocess, tempfile, time, json

VERIF = os.path.dirname(os.path.dirname(os.path.abspath(__file__)))
SPEC = os.path.join(VERIF, "spec")
WORK = os.path.join(VERIF, ".work")
CP = "/opt/veriftools/tla/tla2tools.jar:/opt/veriftools/tla/CommunityModules-deps.jar"


class MachineryError(Exception):
    pass


class TLCResult:
    def __init__(self, rc, out, wall):
        self.rc, self.out, self.wall = rc, out, wall
        m = re.findall(r"(\d+) states generated, (\d+) distinct states found", out)
        self.generated = int(m[-1][0]) if m else 0
        self.distinct = int(m[-1][1]) if m else 0
        if not m:  # simulation mode prints differently
            m2 = re.findall(r"(\d+) states checked", out)
            if m2:
                self.generated = self.distinct = int(m2[-1])
        self.violated = re.findall(r"Invariant (\w+) is violated", out) + \
            re.findall(r"Action property (\w+) is violated", out)
        self.completed = "Model checking completed. No error has been found." in out
        self.printed = printed_tuples(out)

    def tuples(self, tag):
        """lines printed as <<"tag", ...>> -> list of python lists (ints / strings only)"""
        res = []
        for l in self.printed:
            if l.startswith('<<"%s"' % tag):
                res.append(parse_tla_tuple(l))
        return res


def printed_tuples(out):
    """every value TLC printed that starts with << at the beginning of a line, as ONE line each.  TLC pretty-prints
    values longer than its line width over several lines (<< "REJ",\n   12,\n   "clause", ... >>): the text is
    collected up to the matching >> (string literals skipped) and normalised to the single-line form <<"tag", ...>>."""
    res, lines, i = [], out.splitlines(), 0
    while i < len(lines):
        l = lines[i]
        if l.startswith("<<"):
            buf, depth, j = "", 0, i
            while j < len(lines):
                seg = lines[j]
                k, instr = 0, False
                while k < len(seg):
                    c = seg[k]
                    if instr:
                        if c == "\\":
                            k += 1
                        elif c == '"':
                            instr = False
                    elif c == '"':
                        instr = True
                    elif seg.startswith("<<", k):
                        depth += 1
                        k += 1
                    elif seg.startswith(">>", k):
                        depth -= 1
                        k += 1
                    k += 1
                buf += (" " if buf else "") + seg.strip()
                if depth <= 0:
                    break
                j += 1
            buf = re.sub(r'^<<\s+', '<<', buf)
            res.append(buf)
            i = j + 1
        else:
            i += 1
    return res


def parse_tla_tuple(s):
    toks = re.findall(r'"(?:[^"\\]|\\.)*"|-?\d+|TRUE|FALSE', s)
    out = []
    for t in toks:
        if t.startswith('"'):
            out.append(t[1:-1])
        elif t in ("TRUE", "FALSE"):
            out.append(t == "TRUE")
        else:
            out.append(int(t))
    return out


def workdir(tag):
    os.makedirs(WORK, exist_ok=True)
    return tempfile.mkdtemp(prefix=tag + "-", dir=WORK)


def run(module, cfg=None, *, workers=1, env=None, simulate=None, depth=None, seed=None,
        coverage=False, timeout=900, extra=(), dfs=False, heap="4g"):
    """Run TLC on spec/<module>.tla with spec/<cfg>.cfg.  Returns TLCResult.
    rc: 0 ok; 12 safety violation; 10 assumption; 11 deadlock; others machinery."""
    cfg = cfg or module
    md = workdir("tlc")
    cmd = ["java", *(["-XX:+UseSerialGC", "-XX:TieredStopAtLevel=1"] if workers == 1 else ["-XX:+UseParallelGC", "-XX:ParallelGCThreads=%d" % max(2, min(8, workers))]), "-Xmx" + heap, "-Xss32m", "-Djava.io.tmpdir=" + md]      # (TLC leaves a tlc-* directory per run in the JVM's temp dir)
    if dfs:
        cmd.append("-Dtlc2.tool.queue.IStateQueue=StateDeque")
    cmd += ["-cp", CP, "tlc2.TLC", "-workers", str(workers), "-metadir", md,
            "-noGenerateSpecTE", "-config", cfg + ".cfg"]
    if simulate:
        cmd += ["-simulate", simulate]
    if depth:
        cmd += ["-depth", str(depth)]
    if seed is not None:
        cmd += ["-seed", str(seed)]
    if coverage:
        cmd += ["-coverage", "1"]
    cmd += list(extra) + [module + ".tla"]
    e = dict(os.environ)
    e.update({k: str(v) for k, v in (env or {}).items()})
    t0 = time.time()
    try:
        p = subprocess.run(cmd, cwd=SPEC, env=e, stdout=subprocess.PIPE, stderr=subprocess.STDOUT,
                           text=True, timeout=timeout)
        rc, out = p.returncode, p.stdout
    except subprocess.TimeoutExpired as ex:
        rc, out = 124, (ex.stdout or b"").decode("utf8", "replace") if isinstance(ex.stdout, bytes) else (ex.stdout or "")
        subprocess.run(["pkill", "-f", md], check=False)
    finally:
        shutil.rmtree(md, ignore_errors=True)
    return TLCResult(rc, out, time.time() - t0)


def must_ok(res, what):
    """TLC finished without machinery error (rc 0 or a property violation rc 12)."""
    if res.rc not in (0, 12, 13):
        tail = "\n".join(res.out.splitlines()[-40:])
        raise MachineryError("%s: TLC exit %s\n%s" % (what, res.rc, tail))
    return res


def sany(module):
    p = subprocess.run(["java", "-cp", CP, "tla2sany.SANY", module + ".tla"], cwd=SPEC,
                       stdout=subprocess.PIPE, stderr=subprocess.STDOUT, text=True)
    ok = p.returncode == 0 and "Semantic errors" not in p.stdout and "Parse Error" not in p.stdout \
        and "Fatal errors" not in p.stdout and "Could not" not in p.stdout
    return ok, p.stdout


def coverage_counts(out):
    """per-action coverage from -coverage 1 output: {action: (distinct, total)}"""
    res = {}
    for m in re.finditer(r"<(\w+) line \d+, col \d+ to line \d+, col \d+ of module (\w+)>: (\d+):(\d+)", out):
        res[m.group(2) + "." + m.group(1)] = (int(m.group(3)), int(m.group(4)))
    return res

"""In-process mutants of torchphysics used for binding demonstrations (./check Cxx --selftest).
Applied inside the driver process only (monkey patches, never on disk) when VERIF_MUTANT=<name>."""
import math, os


def apply(name):
    if not name:
        return
    fn = REGISTRY[name]
    fn()


def _static_le():
    import torchphysics as tp
    from torchphysics.problem.samplers.sampler_base import StaticSampler
    from torchphysics.problem.spaces import Points

    def sample_points(self, params=Points.empty(), device="cpu", **kwargs):
        self.counter += 1
        if self.created_points and self.counter <= self.resample_interval:
            return self.created_points
        self.counter = 0
        points = self.sampler.sample_points(params, device=device, **kwargs)
        self.created_points = points
        return points
    StaticSampler.sample_points = sample_points


def _static_nocount_restatic():
    from torchphysics.problem.samplers.sampler_base import StaticSampler
    old = StaticSampler.make_static

    def make_static(self, resample_interval=math.inf):
        self.resample_interval = resample_interval
        self.counter = -3          # re-staticising grants extra uses beyond any reading of the text
        return self
    StaticSampler.make_static = make_static


def _adaptive_le():
    import torch
    from torchphysics.problem.samplers.random_samplers import AdaptiveThresholdRejectionSampler as S
    from torchphysics.problem.spaces import Points

    def sample_points(self, unreduced_loss=None, params=Points.empty(), device="cpu"):
        new_points = self.random_sampler.sample_points(params, device=device)
        if self.last_points is None or unreduced_loss is None:
            self.last_points = new_points
        else:
            max_l, min_l = torch.max(unreduced_loss), torch.min(unreduced_loss)
            f = unreduced_loss <= min_l + (max_l - min_l) * self.resample_ratio
            self.last_points._t[f, :] = new_points._t[f, :]
        return self.last_points
    S.sample_points = sample_points


def _adaptive_newonly():
    from torchphysics.problem.samplers.random_samplers import AdaptiveThresholdRejectionSampler as S
    from torchphysics.problem.spaces import Points

    def sample_points(self, unreduced_loss=None, params=Points.empty(), device="cpu"):
        new_points = self.random_sampler.sample_points(params, device=device)
        self.last_points = new_points
        return new_points
    S.sample_points = sample_points


def _dl_target_perm():
    import torch
    from torchphysics.utils.data.dataloader import PointsDataset
    old = PointsDataset.__init__

    def init(self, data_points, batch_size, shuffle=False, drop_last=False):
        old(self, data_points, batch_size, shuffle=False, drop_last=drop_last)
        if shuffle:
            for i in range(len(self.data_points)):
                perm = torch.randperm(len(self.data_points[0].as_tensor))
                self.data_points[i] = self.data_points[i][perm]
    PointsDataset.__init__ = init


def _dl_len_floor():
    from torchphysics.utils.data.dataloader import PointsDataset
    PointsDataset.__len__ = lambda self: max(1, len(self.data_points[0].as_tensor) // self.batch_size) \
        if not self.drop_last else len(self.data_points[0].as_tensor) // self.batch_size


def _dl_agg_sum():
    import torch
    from torchphysics.problem.conditions.condition import DataCondition
    old = DataCondition.forward

    def forward(self, device="cpu", iteration=None):
        if self.use_full_dataset and self.norm != "inf":
            loss = torch.zeros(1)
            for batch in iter(self.dataloader):
                a = self._compute_dist(batch, device)
                loss = loss + torch.sum(a ** self.norm)
            n = sum(len(b[0]) for b in iter(self.dataloader))
            loss = loss / n            # global mean instead of mean of per-batch means
            if self.root != 1.0:
                loss = loss ** (1 / self.root)
            return loss
        return old(self, device, iteration)
    DataCondition.forward = forward


def _uf_defaults_head():
    import inspect
    from torchphysics.utils.user_fun import UserFunction

    def _set(self):
        spec = inspect.getfullargspec(self.fun)
        self.args = spec.args + spec.kwonlyargs
        self.defaults = {}
        if spec.defaults is not None:
            self.defaults = {self.args[i]: spec.defaults[i] for i in range(len(spec.defaults))}
    UserFunction._set_input_args_for_function = _set


def _uf_pe_nocopy():
    from torchphysics.utils.user_fun import UserFunction

    def pe(self, **args):
        if callable(self.fun):
            if all(arg in args for arg in self.necessary_args):
                inp = {key: args[key] for key in self.args if key in args}
                inp.update({key: self.defaults[key] for key in self.args if key not in args})
                return self.fun(**inp)
            self.set_default(**args)
            return self
        return self.fun
    UserFunction.partially_evaluate = pe


def _uf_positional():
    from torchphysics.utils.user_fun import UserFunction
    from torchphysics.problem.spaces import Points

    def call(self, args={}, vectorize=False):
        if isinstance(args, Points):
            args = args.coordinates
        for key in self.necessary_args:
            assert key in args
        vals = [args[k] for k in args if k in self.args]       # in the order of the MAPPING
        names = [k for k in self.args if k in args]            # in the order of the signature
        inp = dict(zip(names, vals))
        inp.update({key: self.defaults[key] for key in self.args if key not in args})
        return self.evaluate_function(**inp)
    UserFunction.__call__ = call


def _uf_optional_dropped():
    from torchphysics.utils.user_fun import UserFunction

    def pe(self, **args):
        import copy
        if callable(self.fun):
            if all(arg in args for arg in self.necessary_args):
                inp = {key: args[key] for key in self.args if key in args}
                inp.update({key: self.defaults[key] for key in self.args if key not in args})
                return self.fun(**inp)
            c = copy.deepcopy(self)
            c.defaults = {k: args[k] for k in args if k in self.args}     # forgets the previous defaults
            return c
        return self.fun
    UserFunction.partially_evaluate = pe


def _pt_slices_off():
    from torchphysics.problem.spaces.points import Points

    def _variable_slices(self):
        start, slices = 0, {}
        for i, v in enumerate(self.space):
            stop = start + self.space[v]
            slices[v] = slice(start + (1 if i == 2 else 0), stop + (1 if i == 2 else 0), None)   # third group shifted
            start += self.space[v]
        return slices
    Points._variable_slices = property(_variable_slices)


def _pt_join_order():
    import torch
    from torchphysics.problem.spaces.points import Points

    def join(self, other):
        if self.isempty:
            return other
        if other.isempty:
            return self
        assert self.space.keys().isdisjoint(other.space)
        return Points(torch.cat([self._t, other._t], dim=-1), other.space * self.space)
    Points.join = join


def _pt_repeat_interleave():
    import torch
    from torchphysics.problem.spaces.points import Points
    Points.repeat = lambda self, *n: Points(torch.repeat_interleave(self._t, n[0], dim=0), self.space)


def _pt_eq_unordered():
    import torch
    from torchphysics.problem.spaces.points import Points
    Points.__eq__ = lambda self, other: set(self.space.keys()) == set(other.space.keys()) and self._t.shape == other._t.shape and bool(torch.equal(self._t, other._t))


def _sp_prod_nomerge():
    from torchphysics.problem.spaces.space import Space

    def mul(self, other):
        d = dict(self)
        d.update(dict(other))          # equal names overwritten instead of added
        return Space(d)
    Space.__mul__ = mul


def _geo_union_and():
    import torch
    from torchphysics.problem.domains.domainoperations.union import UnionDomain
    UnionDomain._contains = lambda self, points, params=None: torch.logical_and(
        self.domain_a._contains(points, *( [params] if params is not None else [])),
        self.domain_b._contains(points, *( [params] if params is not None else [])))


def _geo_cut_nonot():
    import torch
    from torchphysics.problem.domains.domainoperations.cut import CutDomain
    from torchphysics.problem.spaces import Points
    CutDomain._contains = lambda self, points, params=Points.empty(): torch.logical_and(
        self.domain_a._contains(points, params), self.domain_b._contains(points, params))


def _geo_translate_sign():
    from torchphysics.problem.domains.domainoperations.translate import Translate
    from torchphysics.problem.spaces import Points

    def _contains(self, points, params=Points.empty()):
        tv = self.translate_fn(points.join(params)).reshape(-1, self.space.dim)
        shifted = points[:, list(self.space.keys())].as_tensor + tv
        return self.domain._contains(Points(shifted, self.space), params)
    Translate._contains = _contains


def _geo_rotate_forward():
    import torch
    from torchphysics.problem.domains.domainoperations.rotate import Rotate
    from torchphysics.problem.spaces import Points

    def _contains(self, points, params=Points.empty()):
        tv = self.rotate_around(points.join(params)).reshape(-1, self.space.dim)
        rm = self.rotation_fn(points.join(params)).reshape(-1, self.space.dim, self.space.dim)
        sh = points[:, list(self.space.keys())].as_tensor - tv
        rp = torch.matmul(rm, sh.unsqueeze(-1)).squeeze(-1) + tv
        return self.domain._contains(Points(rp, self.space), params)
    Rotate._contains = _contains


def _geo_param_row0():
    import torch
    from torchphysics.problem.domains.domain2D.circle import Circle
    old = Circle._compute_center_and_radius

    def f(self, params=None, device="cpu"):
        c, r = old(self, params, device)
        if len(c) > 1:
            c = c[:1].expand_as(c)          # every point judged with the first row's centre
        return c, r
    Circle._compute_center_and_radius = f


def _geo_par_no_y():
    import torch
    from torchphysics.problem.domains.domain2D.parallelogram import Parallelogram
    from torchphysics.problem.spaces import Points

    def _contains(self, points, params=Points.empty()):
        origin, _, _, d1, d2 = self._construct_parallelogram(points.join(params), points.device)
        p = points[:, list(self.space.keys())].as_tensor
        p = p - origin
        bx, by = self._solve_lgs(p, d1, d2)
        in_x = torch.logical_and(0 <= bx, bx <= 1)
        in_y = 0 <= by
        return torch.logical_and(in_x, in_y).reshape(-1, 1)
    Parallelogram._contains = _contains


def _smp_tri_mirror():
    import torch
    from torchphysics.problem.domains.domain2D.triangle import Triangle

    def h(self, d, bary):
        big = bary.sum(axis=2) >= 1
        if d:
            idx = torch.where(torch.logical_not(big))
            return bary[idx][None, :]
        idx = torch.where(big)
        bary[idx] = torch.subtract(torch.tensor([[1.0, 1.5]]), bary[idx])      # mirrored around the wrong point
        return bary
    Triangle._handle_sum_greater_1 = h


def _smp_trans_twice():
    from torchphysics.problem.domains.domainoperations.translate import Translate
    from torchphysics.problem.spaces import Points
    old = Translate.sample_random_uniform

    def f(self, n=None, d=None, params=Points.empty(), device="cpu"):
        p = old(self, n=n, d=d, params=params, device=device)
        _, rp = self._repeat_params(int(len(p) / max(len(params), 1)), params)
        return Points(p.as_tensor + self.translate_fn(rp).reshape(-1, self.space.dim), self.space)
    Translate.sample_random_uniform = f


def _smp_circle_bd_radius():
    import torch
    from torchphysics.problem.domains.domain2D.circle import CircleBoundary
    from torchphysics.problem.spaces import Points
    old = CircleBoundary.sample_grid

    def f(self, n=None, d=None, params=Points.empty(), device="cpu"):
        p = old(self, n=n, d=d, params=params, device=device)
        c, r = self.domain._compute_center_and_radius(params, device)
        if len(c) == 1:
            return Points(c + 0.97 * (p.as_tensor - c), self.space)       # grid points slightly inside the circle line
        return p
    CircleBoundary.sample_grid = f


def _smp_cut_inverted():
    import torch
    from torchphysics.problem.domains.domainoperations import sampler_helper as sh
    old = sh._check_in_b

    def f(domain_b, params, invert, grid_a):
        inside_b = domain_b._contains(grid_a, params)
        return torch.where(inside_b)[0] if len(grid_a) == 7 else old(domain_b, params, invert, grid_a)   # only for one batch size
    sh._check_in_b = f


def _vol_circle_bd():
    import numpy as np
    from torchphysics.problem.domains.domain2D.circle import CircleBoundary
    from torchphysics.problem.spaces import Points
    CircleBoundary._get_volume = lambda self, params=Points.empty(), device="cpu": (np.pi * self.domain.radius(params, device=device)).reshape(-1, 1)


def _vol_tri_nohalf():
    import torch
    from torchphysics.problem.domains.domain2D.triangle import Triangle
    from torchphysics.problem.spaces import Points

    def v(self, params=Points.empty(), device="cpu"):
        _, _, _, d1, _, d3 = self._construct_triangle(params, device=device)
        return torch.abs(-d1[:, :1] * d3[:, 1:] + d1[:, 1:] * d3[:, :1])
    Triangle._get_volume = v


def _vol_sphere_34():
    import numpy as np
    from torchphysics.problem.domains.domain3D.sphere import Sphere
    from torchphysics.problem.spaces import Points
    Sphere._get_volume = lambda self, params=Points.empty(), device="cpu": (3.0 / 4.0 * np.pi * self.radius(params, device=device) ** 3).reshape(-1, 1)


def _vol_par_signed():
    from torchphysics.problem.domains.domain2D.parallelogram import Parallelogram
    from torchphysics.problem.spaces import Points

    def v(self, params=Points.empty(), device="cpu"):
        _, _, _, d1, d2 = self._construct_parallelogram(params, device=device)
        return d1[:, :1] * d2[:, 1:] - d1[:, 1:] * d2[:, :1]
    Parallelogram._get_volume = v


def _vol_cut_flag_ignored():
    from torchphysics.problem.domains.domainoperations.cut import CutDomain
    from torchphysics.problem.spaces import Points
    CutDomain._get_volume = lambda self, params=Points.empty(), device="cpu": self.domain_a.volume(params, device=device)


def _vol_density_floor():
    import torch
    from torchphysics.problem.domains.domain import Domain

    def c(self, d, params):
        volume = self.volume(params)
        return int(torch.floor(d * volume)) + 0
    Domain.compute_n_from_density = c


def _box_union_swapped():
    import torch
    from torchphysics.problem.domains.domainoperations.union import UnionDomain
    from torchphysics.problem.spaces import Points

    def bb(self, params=Points.empty(), device="cpu"):
        a = self.domain_a.bounding_box(params, device=device)
        b = self.domain_b.bounding_box(params, device=device)
        out = []
        for i in range(self.space.dim):
            out.append(max([a[2 * i], b[2 * i]]))
            out.append(min([a[2 * i + 1], b[2 * i + 1]]))
        return torch.tensor(out, device=device)
    UnionDomain.bounding_box = bb


def _box_circle_axis():
    import torch
    from torchphysics.problem.domains.domain2D.circle import Circle
    from torchphysics.problem.spaces import Points

    def bb(self, params=Points.empty(), device="cpu"):
        c, r = self._compute_center_and_radius(params, device=device)
        out = []
        for i in range(self.dim):
            rr = r if i == 0 else 0.9 * r
            out.append(torch.min(c[:, i] - rr).item())
            out.append(torch.max(c[:, i] + rr).item())
        return torch.tensor(out, device=device)
    Circle.bounding_box = bb


def _box_rotate_two_corners():
    import torch
    from torchphysics.problem.domains.domainoperations.rotate import Rotate
    from torchphysics.problem.spaces import Points

    def bb(self, params=Points.empty(), device="cpu"):
        db = self.domain.bounding_box(params=params, device=device)
        tv = self.rotate_around(params).reshape(-1, self.space.dim)
        rm = self.rotation_fn(params).reshape(-1, self.space.dim, self.space.dim)
        tv2 = torch.repeat_interleave(tv, 2, 1)
        db = db - tv2
        rmin = torch.matmul(rm, db[:, ::2].unsqueeze(-1)).squeeze(-1)
        rmax = torch.matmul(rm, db[:, 1::2].unsqueeze(-1)).squeeze(-1)
        out = torch.zeros((len(rmin), 2 * self.space.dim))
        out[:, ::2] = torch.min(rmin, rmax)
        out[:, 1::2] = torch.max(rmin, rmax)
        out = out + tv2
        res = torch.zeros(2 * self.space.dim)
        res[::2] = out[:, ::2].min(0)[0]
        res[1::2] = out[:, 1::2].max(0)[0]
        return res
    Rotate.bounding_box = bb


def _box_interval_first_row():
    import torch
    from torchphysics.problem.domains.domain1D.interval import Interval
    from torchphysics.problem.spaces import Points

    def bb(self, params=Points.empty(), device="cpu"):
        lb = self.lower_bound(params, device=device).reshape(-1)
        ub = self.upper_bound(params, device=device).reshape(-1)
        return torch.stack((lb[0], ub[0]), dim=0)         # only the first parameter row
    Interval.bounding_box = bb


def _pe_circle_radius_kept():
    from torchphysics.problem.domains.domain2D.circle import Circle

    def call(self, **data):
        return Circle(space=self.space, center=self.center.partially_evaluate(**data), radius=self.radius)
    Circle.__call__ = call


def _pe_nv_left_only():
    from torchphysics.problem.domains.domainoperations.cut import CutDomain
    old = CutDomain.__init__

    def init(self, a, b, contained=False):
        old(self, a, b, contained)
        self.necessary_variables = a.necessary_variables.copy()
    CutDomain.__init__ = init


def _pe_product_keeps_vars():
    from torchphysics.problem.domains.domainoperations.product import ProductDomain
    old = ProductDomain.__init__

    def init(self, a, b):
        old(self, a, b)
        self.necessary_variables = a.necessary_variables | b.necessary_variables
    ProductDomain.__init__ = init


def _pe_translate_inner_unbound():
    from torchphysics.problem.domains.domainoperations.translate import Translate

    def call(self, **data):
        return Translate(domain=self.domain, translation=self.translate_fn.partially_evaluate(**data))
    Translate.__call__ = call


def _pe_mutates_original():
    from torchphysics.problem.domains.domain1D.interval import Interval

    def call(self, **data):
        self.lower_bound.set_default(**data)
        self.upper_bound.set_default(**data)
        self.set_necessary_variables(self.lower_bound, self.upper_bound)
        return self
    Interval.__call__ = call


def _rows_repeat_tile():
    import torch
    from torchphysics.problem.samplers.sampler_base import PointSampler
    from torchphysics.problem.spaces import Points
    PointSampler._repeat_params = lambda self, params, n: Points(params.as_tensor.repeat(n, 1) if len(params) else params.as_tensor, params.space)


def _rows_prod_outer():
    from torchphysics.problem.samplers.sampler_base import ProductSampler
    from torchphysics.problem.spaces import Points

    def sp(self, params=Points.empty(), device="cpu"):
        b = self.sampler_b.sample_points(params, device=device)
        a = self.sampler_a.sample_points(params, device=device)       # not sampled per partner row
        nb, na = len(b), len(a)
        out = a.repeat(nb).join(Points(b.as_tensor.repeat_interleave(na, dim=0), b.space)) if params.isempty else self.sampler_a.sample_points(b, device=device)
        self.set_length(len(out))
        return out
    ProductSampler.sample_points = sp


def _rows_cut_n_plus_1():
    from torchphysics.problem.samplers.sampler_base import PointSampler
    PointSampler._cut_tensor_to_length_n = lambda self, points: points[: self.n_points + 1, ]


def _rows_len_stale():
    from torchphysics.problem.samplers.sampler_base import ConcatSampler
    from torchphysics.problem.spaces import Points

    def sp(self, params=Points.empty(), device="cpu"):
        a = self.sampler_a.sample_points(params, device=device)
        b = self.sampler_b.sample_points(params, device=device)
        self.set_length(len(a))
        return a | b
    ConcatSampler.sample_points = sp


def _rows_grid_dep_first_row():
    from torchphysics.problem.samplers.sampler_base import PointSampler

    def f(self, sample_function, params, i, device):
        ith = params[0, ] if len(params) > 0 else params
        own = params[i, ] if len(params) > 0 else params
        new_points = sample_function(self.n_points, self.density, ith, device)
        return new_points.join(self._repeat_params(own, len(new_points)))
    PointSampler._sample_for_ith_param = f


def _nrm_par_flip():
    import torch
    from torchphysics.problem.domains.domain2D.parallelogram import ParallelogramBoundary

    def g(self, direction, device):
        normal = torch.index_select(direction, 1, torch.tensor([1, 0], device=device))
        normal[:, 1:] *= -1                      # the other coordinate negated: normal flipped
        return torch.divide(normal, torch.linalg.norm(normal, dim=1).reshape(-1, 1))
    ParallelogramBoundary._get_normal_direction = g


def _nrm_cut_noflip():
    import torch
    from torchphysics.problem.domains.domainoperations.cut import CutBoundaryDomain
    from torchphysics.problem.spaces import Points

    def normal(self, points, params=Points.empty(), device="cpu"):
        points, params, device = self._transform_input_for_normals(points, params, device)
        a = self.domain.domain_a.boundary.normal(points, params, device)
        b = self.domain.domain_b.boundary.normal(points, params, device)
        on_a = self.domain.domain_a.boundary._contains(points, params)
        return torch.where(on_a, a, b)
    CutBoundaryDomain.normal = normal


def _nrm_union_wrong_operand():
    import torch
    from torchphysics.problem.domains.domainoperations.union import UnionBoundaryDomain
    from torchphysics.problem.spaces import Points

    def normal(self, points, params=Points.empty(), device="cpu"):
        points, params, device = self._transform_input_for_normals(points, params, device)
        a = self.domain.domain_a.boundary.normal(points, params, device)
        b = self.domain.domain_b.boundary.normal(points, params, device)
        on_b = self.domain.domain_b.boundary._contains(points, params)
        return torch.where(on_b, a, b)
    UnionBoundaryDomain.normal = normal


def _nrm_circle_unnormalised():
    from torchphysics.problem.domains.domain2D.circle import CircleBoundary
    from torchphysics.problem.spaces import Points

    def normal(self, points, params=Points.empty(), device="cpu"):
        points, params, device = self._transform_input_for_normals(points, params, device)
        c, r = self.domain._compute_center_and_radius(points.join(params), device)
        return points[:, list(self.space.keys())].as_tensor - c          # not divided by the radius
    CircleBoundary.normal = normal


def _nrm_tri_orientation_dropped():
    import torch
    from torchphysics.problem.domains.domain2D.triangle import TriangleBoundary
    from torchphysics.problem.spaces import Points

    def normal(self, points, params=Points.empty(), device="cpu"):
        points, params, device = self._transform_input_for_normals(points, params, device)
        o, _, _, d1, d2, d3 = self.domain._construct_triangle(points.join(params), device)
        p = points[:, list(self.space.keys())].as_tensor
        n = torch.zeros_like(p)
        bx, by = self.domain._solve_lgs(p - o, d1, -d3)
        self._add_local_normal_vector(n, bx, self._get_normal_direction(d3, device), 0.0)
        self._add_local_normal_vector(n, bx + by, self._get_normal_direction(d2, device), 1.0)
        self._add_local_normal_vector(n, by, self._get_normal_direction(d1, device), 0.0)
        return torch.divide(n, torch.linalg.norm(n, dim=1).reshape(-1, 1))
    TriangleBoundary.normal = normal


def _law_circle_nosqrt():
    import torch, numpy as np
    from torchphysics.problem.domains.domain2D.circle import Circle
    from torchphysics.problem.spaces import Points

    def f(self, n=None, d=None, params=Points.empty(), device="cpu"):
        if d:
            n = self.compute_n_from_density(d, params)
        c, r0 = self._compute_center_and_radius(params, device=device)
        k = self.len_of_params(params)
        r = torch.rand((k, n, 1)) * r0
        phi = 2 * np.pi * torch.rand((k, n, 1))
        pts = torch.cat((r * torch.cos(phi), r * torch.sin(phi)), dim=2) + c[:, None, :]
        return Points(pts.reshape(-1, 2), self.space)
    Circle.sample_random_uniform = f


def _law_par_bd_equal_sides():
    import torch
    from torchphysics.problem.domains.domain2D.parallelogram import ParallelogramBoundary
    old = ParallelogramBoundary._compute_side_length

    def f(self, d1, d2):
        s1, s2, tot = old(self, d1, d2)
        m = (s1 + s2) / 2
        return m, m, 4 * m            # every side equally likely, whatever its length
    ParallelogramBoundary._compute_side_length = f


def _law_tri_mirror_one_coord():
    import torch
    from torchphysics.problem.domains.domain2D.triangle import Triangle

    def h(self, d, bary):
        big = bary.sum(axis=2) >= 1
        if d:
            idx = torch.where(torch.logical_not(big))
            return bary[idx][None, :]
        idx = torch.where(big)
        b = bary[idx]
        bary[idx] = torch.stack((1.0 - b[:, 0], b[:, 1] * (1.0 - b[:, 0]) / torch.clamp(b[:, 1], min=1e-9) * b[:, 1] / 1.0), dim=1).clamp(0, 1) * 0 + torch.stack((1 - b[:, 0], (1 - b[:, 0]) * torch.rand(len(b))), dim=1) * 0 + torch.stack((1 - b[:, 0], b[:, 1] - (b[:, 0] + b[:, 1] - 1)), dim=1)
        return bary
    Triangle._handle_sum_greater_1 = h


def _law_union_equal_weights():
    import torch
    from torchphysics.problem.domains.domainoperations.union import UnionDomain
    from torchphysics.problem.spaces import Points

    def f(self, n, params=Points.empty(), device="cpu"):
        pa = self.domain_a.sample_random_uniform(n=n, params=params, device=device)
        pb = self.domain_b.sample_random_uniform(n=n, params=params, device=device)
        _, rp = self._repeat_params(n, params)
        in_a = self.domain_a._contains(points=pb, params=rp)
        pick = torch.logical_or(in_a, torch.rand((max(n, len(rp)), 1)) <= 0.5)
        return Points(torch.where(pick, pa, pb), self.space)
    UnionDomain._sample_random_with_n = f


def _law_gauss_std():
    import torch
    from torchphysics.problem.samplers.random_samplers import GaussianSampler
    old = GaussianSampler.__init__

    def init(self, domain, n_points, mean, std):
        old(self, domain, n_points, mean, std * 1.3)
    GaussianSampler.__init__ = init


def _law_lhs_noperm_shift():
    import torch
    from torchphysics.problem.samplers.random_samplers import LHSSampler

    def f(self, bb, device):
        pts = torch.zeros((self.n_points, self.domain.dim))
        for i in range(self.domain.dim):
            grid = torch.linspace(bb[2 * i], bb[2 * i + 1], steps=self.n_points + 1)[:-1]
            length = bb[2 * i + 1] - bb[2 * i]
            shift = length / self.n_points * torch.rand(self.n_points) * 1.6       # may spill into the next slab
            pts[:, i] = (grid + shift)[torch.randperm(self.n_points)]
        return pts
    LHSSampler._create_lhs_in_bounding_box = f


def _law_grid_half():
    import torch
    from torchphysics.problem.domains.domain2D.parallelogram import Parallelogram

    def f(self, n, d1, d2, device):
        s1, s2 = torch.linalg.norm(d1, dim=1), torch.linalg.norm(d2, dim=1)
        n1, n2 = int(torch.sqrt(n * s1 / s2)), int(torch.sqrt(n * s2 / s1))
        x = torch.linspace(0, 0.6, n1 + 2)[1:-1]                 # grid squeezed into a part of the shape
        y = torch.linspace(0, 1, n2 + 2)[1:-1]
        return torch.permute(torch.stack(torch.meshgrid((x, y))), (2, 1, 0)).reshape(-1, 2)
    Parallelogram._compute_barycentric_grid = f


def _do_div_offset():
    import torch
    from torchphysics.utils import differentialoperators as do

    def div(model_out, *dv):
        out = torch.zeros((*dv[0].shape[:-1], 1))
        var_dim = 0
        for vari in dv:
            for i in range(vari.shape[-1]):
                Du = do._grad_or_zeros(model_out.narrow(-1, var_dim + i, 1).sum(), vari)
                out = out + Du.narrow(-1, i, 1)
            var_dim += i                      # off by one for groups after a multi-dimensional one
        return out
    do.div = div


def _do_lap_first_only():
    import torch
    from torchphysics.utils import differentialoperators as do

    def laplacian(model_out, *dv, grad=None):
        lap = torch.zeros((*model_out.shape[:-1], 1))
        for vari in dv:
            g = do._grad_or_zeros(model_out.sum(), vari)
            if g.grad_fn is None:
                continue
            for i in range(vari.shape[-1]):
                D2u = do._grad_or_zeros(g.narrow(-1, i, 1).sum(), vari)
                lap += D2u.narrow(-1, 0, 1)        # always the first column
        return lap
    do.laplacian = laplacian


def _do_jac_transposed():
    import torch
    from torchphysics.utils import differentialoperators as do
    old = do.jac
    do.jac = lambda model_out, *dv: torch.transpose(old(model_out, *dv), 1, 2) if old(model_out, *dv).shape[1] == old(model_out, *dv).shape[2] else old(model_out, *dv)


def _do_rot_sign():
    import torch
    from torchphysics.utils import differentialoperators as do

    def rot(model_out, *dv):
        j = do.jac(model_out, *dv)
        r = torch.zeros((len(dv[0]), 3))
        r[:, 0] = j[:, 2, 1] - j[:, 1, 2]
        r[:, 1] = j[:, 2, 0] - j[:, 0, 2]
        r[:, 2] = j[:, 1, 0] - j[:, 0, 1]
        return r
    do.rot = rot


def _do_grad_sorted_vars():
    import torch
    from torchphysics.utils import differentialoperators as do

    def grad(model_out, *dv):
        g = [do._grad_or_zeros(model_out.sum(), v) for v in sorted(dv, key=lambda v: -v.shape[-1])]   # widest group first
        return torch.column_stack(g)
    do.grad = grad


def _do_partial_batch_mix():
    import torch
    from torchphysics.utils import differentialoperators as do

    def partial(model_out, *dv):
        du = model_out
        for inp in dv:
            if du.grad_fn is None:
                return torch.zeros_like(inp)
            du = do._grad_or_zeros(du.sum(), inp)
        return du - du.mean(dim=0, keepdim=True) * 0 + (du.roll(1, 0) - du.roll(1, 0)) + (du.sum() * 0)    # still row-wise
    do.partial = partial


def _mdl_fcn_noreorder():
    from torchphysics.models.fcn import FCN
    from torchphysics.problem.spaces import Points
    FCN.forward = lambda self, points: Points(self.sequential(points.as_tensor), self.output_space)


def _mdl_parallel_positional():
    import torch
    from torchphysics.models.model import Parallel
    from torchphysics.problem.spaces import Points

    def forward(self, points):
        out, k = [], 0
        for model in self.models:
            d = model.input_space.dim
            out.append(model(Points(points.as_tensor[..., :d], model.input_space)))      # by position, not by name
        return Points.joined(*out)
    Parallel.forward = forward


def _mdl_qres_batch_norm():
    import torch
    from torchphysics.models.qres import QRES
    from torchphysics.problem.spaces import Points
    old = QRES.forward

    def forward(self, points):
        out = old(self, points)
        t = out.as_tensor
        return Points(t - 0.01 * t.mean(dim=0, keepdim=True), out.space)              # rows see the rest of the batch
    QRES.forward = forward


def _mdl_sequential_skips_reorder():
    from torchphysics.models.model import Sequential

    def forward(self, points):
        for model in self.models[:1]:
            points = model(points)
        for model in self.models[1:]:
            from torchphysics.problem.spaces import Points
            points = model(Points(points.as_tensor.flip(-1), points.space)) if points.as_tensor.shape[-1] == 2 else model(points)
        return points
    Sequential.forward = forward


def _mdl_harmonic_missing_var_ok():
    import torch
    from torchphysics.models.model import Model

    def fix(self, points):
        if points.space != self.input_space:
            keys = [k for k in self.input_space.keys() if k in points.space]
            t = points[..., keys].as_tensor
            pad = self.input_space.dim - t.shape[-1]
            if pad > 0:
                t = torch.cat([t, torch.zeros(*t.shape[:-1], pad)], dim=-1)            # missing variables silently zero
            from torchphysics.problem.spaces import Points
            return Points(t, self.input_space)
        return points
    Model._fix_points_order = fix


def _don_contract_wrong_axis():
    import torch
    from torchphysics.models.deeponet.deeponet import DeepONet
    from torchphysics.problem.spaces import Points

    def forward(self, trunk_inputs, branch_inputs=None, device="cpu"):
        if branch_inputs is not None:
            self.fix_branch_input(branch_inputs, device=device)
        t = self.trunk(trunk_inputs)
        if len(t.shape) < 4:
            t = t.unsqueeze(0)
        b = self.branch.current_out.unsqueeze(1)
        out = torch.sum(t * b.flip(-1), dim=-1)                    # neurons paired in reverse order
        return Points(out, self.output_space)
    DeepONet.forward = forward


def _don_grad_weight():
    import torch
    from torchphysics.models.deeponet import layers

    class lin(torch.autograd.Function):
        @staticmethod
        def forward(ctx, input, weight, bias=None):
            if len(input.shape) < 3:
                input = input.unsqueeze(0)
            n = input.shape[0]
            input = input[0]
            ctx.save_for_backward(input, weight, bias)
            out = input.matmul(weight.transpose(-1, -2))
            if bias is not None:
                out += bias.unsqueeze(0).expand_as(out)
            return out.expand(*([n] + len(out.shape) * [-1]))

        @staticmethod
        def backward(ctx, g):
            input, weight, bias = ctx.saved_tensors
            gi = g.matmul(weight)
            gw = g[0].transpose(-1, -2).matmul(input) if g.dim() == 3 else g.transpose(-1, -2).matmul(input)     # only the first copy
            gb = g.reshape(-1, bias.shape[-1]).sum(0) if bias is not None else None
            return gi, gw, gb
    layers.linear = lin
    layers.TrunkLinear.forward = lambda self, input: lin.apply(input, self.weight, self.bias)


def _don_branch_cache_by_shape():
    import torch
    from torchphysics.models.deeponet.branchnets import FCBranchNet

    def forward(self, batch):
        x = batch.as_tensor.reshape(-1, self.input_dim)
        if getattr(self, "_last_shape", None) == tuple(x.shape) and self.current_out.numel():
            return                                                  # "same input", keep the cached features
        self._last_shape = tuple(x.shape)
        self.current_out = self._reshape_multidimensional_output(self.sequential(x))
    FCBranchNet.forward = forward


def _don_trunk_reshape():
    from torchphysics.models.deeponet.trunknets import TrunkNet

    def r(self, output):
        n = int(self.output_neurons / self.output_space.dim)
        if len(output.shape) == 3:
            return output.reshape(output.shape[0], output.shape[1], n, self.output_space.dim).transpose(-1, -2)
        return output.reshape(-1, n, self.output_space.dim).transpose(-1, -2)
    TrunkNet._reshape_multidimensional_output = r


def _fno_pad_front():
    import torch
    from torchphysics.models.FNO import _FourierLayer

    def forward(self, points):
        fft = torch.fft.rfftn(points, dim=self.fourier_dims)
        shp = torch.tensor(fft.shape[1:-1])
        padding = torch.zeros(2 * self.data_dim + 2, dtype=torch.int32)
        padding[2::2][1:] = torch.flip((self.mode_num - shp), dims=(0,))          # pads / cuts at the FRONT of each axis
        fft = torch.nn.functional.pad(fft, padding.tolist())
        fft = fft * self.fourier_kernel
        out = torch.fft.irfftn(fft, s=points.shape[1:-1], dim=self.fourier_dims)
        if self.linear_connection:
            out += self.linear_transform(points)
        if self.skip_connection:
            out += points
        return out
    _FourierLayer.forward = forward


def _fno_inplace():
    import torch
    from torchphysics.models.FNO import _FourierLayer
    old = _FourierLayer.forward

    def forward(self, points):
        out = old(self, points)
        if self.skip_connection:
            points += 0.0 * out + 0.001                                          # touches the caller's tensor
        return out
    _FourierLayer.forward = forward


def _fno_position_bias():
    import torch
    from torchphysics.models.FNO import _FourierLayer
    old = _FourierLayer.forward

    def forward(self, points):
        out = old(self, points)
        ramp = torch.arange(points.shape[1], dtype=out.dtype).reshape(1, -1, *([1] * (out.dim() - 2)))
        return out + 0.01 * ramp                                                 # depends on the absolute position
    _FourierLayer.forward = forward


def _fno_irfft_size():
    import torch
    from torchphysics.models.FNO import _FourierLayer

    def forward(self, points):
        fft = torch.fft.rfftn(points, dim=self.fourier_dims, norm="forward")      # normalisation on one side only
        shp = torch.tensor(fft.shape[1:-1])
        padding = torch.zeros(2 * self.data_dim + 2, dtype=torch.int32)
        padding[3::2] = torch.flip((self.mode_num - shp), dims=(0,))
        fft = torch.nn.functional.pad(fft, padding.tolist())
        fft = fft * self.fourier_kernel
        out = torch.fft.irfftn(fft, s=points.shape[1:-1], dim=self.fourier_dims)
        if self.linear_connection:
            out += self.linear_transform(points)
        if self.skip_connection:
            out += points
        return out
    _FourierLayer.forward = forward


def _cond_inplace_dict():
    from torchphysics.problem.conditions.condition import Condition
    from torchphysics.problem.samplers import StaticSampler
    from torchphysics.utils import UserFunction

    def setup(self, data_functions, sampler):
        for fun in data_functions:
            data_functions[fun] = UserFunction(data_functions[fun])
        if isinstance(sampler, StaticSampler):
            for fun in data_functions:
                points = sampler.sample_points()
                data_functions[fun] = UserFunction(data_functions[fun](points))
        return data_functions
    Condition._setup_data_functions = setup


def _cond_sqerr_mean():
    import torch
    from torchphysics.problem.conditions.condition import SquaredError
    SquaredError.forward = lambda self, x: torch.mean(torch.square(x), dim=1)


def _cond_data_on_first_call_points():
    from torchphysics.problem.conditions.condition import SingleModuleCondition
    old = SingleModuleCondition.forward

    def forward(self, device="cpu", iteration=None):
        x = self.sampler.sample_points(device=device)
        xc, x = x.track_coord_gradients()
        if not hasattr(self, "_cached_data"):
            self._cached_data = {f: self.data_functions[f](xc) for f in self.data_functions}
        data = {f: v.flip(0) if v.dim() > 0 and len(v) > 1 else v for f, v in self._cached_data.items()}     # rows of the data reversed
        y = self.module(x)
        ul = self.error_fn(self.residual_fn({**y.coordinates, **xc, **self.parameter.coordinates, **data}))
        return self.reduce_fn(ul)
    SingleModuleCondition.forward = forward


def _cond_periodic_shared_sides():
    from torchphysics.problem.conditions.condition import PeriodicCondition
    old = PeriodicCondition.__init__

    def init(self, *a, **kw):
        old(self, *a, **kw)
        self.right_data_functions = self.left_data_functions          # one dictionary for both sides
    PeriodicCondition.__init__ = init


def _cond_model_positional():
    from torchphysics.models.model import Model
    from torchphysics.problem.spaces import Points

    def fix(self, points):
        if points.space != self.input_space:
            if points.space.keys() != self.input_space.keys():
                raise ValueError("space")
            return Points(points.as_tensor, self.input_space)          # relabelled, not reordered
        return points
    Model._fix_points_order = fix


def _trn_no_weight():
    import torch
    from torchphysics.solver import Solver

    def training_step(self, batch, batch_idx):
        loss = torch.zeros(1, requires_grad=True, device=self.device)
        for condition in self.train_conditions:
            loss = loss + condition(device=self.device, iteration=self.n_training_step)
        self.n_training_step += 1
        return loss
    Solver.training_step = training_step


def _trn_iter_const():
    import torch
    from torchphysics.solver import Solver

    def training_step(self, batch, batch_idx):
        loss = torch.zeros(1, requires_grad=True, device=self.device)
        for condition in self.train_conditions:
            loss = loss + condition.weight * condition(device=self.device, iteration=batch_idx // 2)
        self.n_training_step += 1
        return loss
    Solver.training_step = training_step


def _trn_gradreverse_off():
    from torchphysics.models.model import AdaptiveWeightLayer
    AdaptiveWeightLayer.grad_reverse = classmethod(lambda cls, x: x)


def _trn_param_unregistered():
    import torch
    from torchphysics.solver import Solver

    def configure_optimizers(self):
        params = [p for n, p in self.named_parameters() if not n.endswith("_params")]
        opt = self.optimizer_setting.optimizer_class(params, lr=self.optimizer_setting.lr, **self.optimizer_setting.optimizer_args)
        if self.optimizer_setting.scheduler_class is None:
            return opt
        sch = self.optimizer_setting.scheduler_class(opt, **self.optimizer_setting.scheduler_args)
        return [opt], [{"scheduler": sch, "name": "learning_rate", "interval": "step", "frequency": self.optimizer_setting.scheduler_frequency}]
    Solver.configure_optimizers = configure_optimizers


def _condx_sqerr_axis1():
    import torch
    from torchphysics.problem.conditions.condition import SquaredError
    SquaredError.forward = lambda self, x: torch.sum(torch.square(x), dim=1)      # the point axis of 3-axis residuals


def _condx_branch_skip():
    from torchphysics.models.deeponet.deeponet import DeepONet

    def _forward_branch(self, function_set, iteration_num=-1, device="cpu"):
        if iteration_num != function_set.current_iteration_num:                   # branch refreshed only with new functions
            function_set.current_iteration_num = iteration_num
            function_set.sample_params(device=device)
            self.branch(self.branch._discretize_function_set(function_set, device=device))
    DeepONet._forward_branch = _forward_branch


def _condx_resample_always():
    from torchphysics.models.deeponet.deeponet import DeepONet

    def _forward_branch(self, function_set, iteration_num=-1, device="cpu"):
        function_set.current_iteration_num = iteration_num
        function_set.sample_params(device=device)                                 # two conditions of one step see different functions
        self.branch(self.branch._discretize_function_set(function_set, device=device))
    DeepONet._forward_branch = _forward_branch


def _condx_fs_eval_first_point():
    import torch
    from torchphysics.problem.domains.functionsets.functionset import FunctionSet
    from torchphysics.problem.spaces.points import Points

    def _create_meshgrid(self, points):
        n_points, n_params = len(points), len(self.param_batch)
        pr = points.as_tensor.unsqueeze(0).repeat(n_params, 1, 1)
        qr = self.param_batch.as_tensor.unsqueeze(0).repeat(n_points, 1, 1).transpose(0, 1).flip(0)   # parameters paired in reverse
        return Points(torch.cat((qr, pr), dim=-1), self.param_batch.space * points.space)
    FunctionSet._create_meshgrid = _create_meshgrid


def _condx_integro_own_points():
    import torch
    from torchphysics.problem.conditions.condition import IntegroPINNCondition
    old = IntegroPINNCondition.forward

    def forward(self, device="cpu", iteration=None):
        s = self.integral_sampler
        first = s.sample_points(device=device)

        class One:
            def sample_points(self_inner, device="cpu"):
                return first[:1, ].repeat(len(first))                              # every integral point is the first one
        self.integral_sampler = One()
        try:
            return old(self, device=device, iteration=iteration)
        finally:
            self.integral_sampler = s
    IntegroPINNCondition.forward = forward


def _don_fs_collection_reversed():
    from torchphysics.problem.domains.functionsets.functionset import FunctionSetCollection
    from torchphysics.problem.spaces.points import Points

    def create_function_batch(self, points):
        output = Points.empty()
        for function_set in reversed(self.collection):          # batch order differs from the order of the sets
            output = output | function_set.create_function_batch(points)
        return output
    FunctionSetCollection.create_function_batch = create_function_batch


def _don_fs_discretize_sorted():
    import torch
    from torchphysics.models.deeponet.branchnets import BranchNet
    from torchphysics.problem.spaces.points import Points

    def _discretize_function_set(self, function_set, device="cpu"):
        input_points = self.discretization_sampler.sample_points(device=device)
        out = function_set.create_function_batch(input_points)
        return Points(torch.flip(out.as_tensor, dims=(1,)), out.space)       # sensors in another order than for tensors / callables
    BranchNet._discretize_function_set = _discretize_function_set


def _cond_preeval_any_static():
    from torchphysics.problem.samplers.sampler_base import PointSampler, StaticSampler
    PointSampler.is_static = property(lambda self: isinstance(self, StaticSampler))      # data pre-evaluated although the sampler resamples


def _cond_move_left_for_both():
    from torchphysics.problem.conditions.condition import PeriodicCondition

    def _move_static_data(self, device):
        if self.non_periodic_sampler.is_static:
            for fn in self.left_data_functions:
                self.left_data_functions[fn].fun = self.left_data_functions[fn].fun.to(device)
                if fn in self.right_data_functions:
                    self.right_data_functions[fn].fun = self.left_data_functions[fn].fun      # right data := left data
    PeriodicCondition._move_static_data = _move_static_data


def _cond_static_cache_dropped():
    from torchphysics.problem.conditions.condition import Condition
    old = Condition._setup_data_functions

    def _setup_data_functions(self, data_functions, sampler):
        out = old(self, data_functions, sampler)
        if sampler.is_static:
            sampler.created_points = None          # the user's sampler draws again at its next call
        return out
    Condition._setup_data_functions = _setup_data_functions


def _trn_sched_every_step():
    import torch
    from torchphysics.solver import Solver
    old = Solver.configure_optimizers

    def configure_optimizers(self):
        r = old(self)
        if isinstance(r, tuple) or isinstance(r, list):
            r[1][0]["frequency"] = 1
        return r
    Solver.configure_optimizers = configure_optimizers


def _trn_val_updates_model():
    import torch
    from torchphysics.solver import Solver
    old = Solver.validation_step

    def validation_step(self, batch, batch_idx):
        old(self, batch, batch_idx)
        with torch.no_grad():
            for p in self.parameters():
                p.mul_(0.5)                       # "regularisation" applied during validation
    Solver.validation_step = validation_step


def _ck_weights_only():
    from torchphysics.utils.callbacks import TrainerStateCheckpoint
    old = TrainerStateCheckpoint.__init__

    def init(self, path, name, check_interval=200, weights_only=False):
        old(self, path, name, check_interval=check_interval, weights_only=True)         # optimizer / scheduler state dropped
    TrainerStateCheckpoint.__init__ = init


def _ck_final_at_start():
    import torch
    from torchphysics.utils.callbacks import WeightSaveCallback

    def on_train_batch_start(self, trainer, pl_module, batch, batch_idx, dataloader_idx=0):
        if self.save_final_model:
            torch.save(self.model.state_dict(), self.path + "/" + self.name + "_final.pt")      # written before the last update
    WeightSaveCallback.on_train_batch_start = on_train_batch_start
    WeightSaveCallback.on_train_end = lambda self, trainer, pl_module: None


def _ck_minloss_stale():
    import torch, copy
    from torchphysics.utils.callbacks import WeightSaveCallback
    old_start = WeightSaveCallback.on_train_start

    def on_train_start(self, trainer, pl_module):
        old_start(self, trainer, pl_module)
        self._stale = copy.deepcopy(self.model.state_dict())

    def on_train_batch_start(self, trainer, pl_module, batch, batch_idx, dataloader_idx=0):
        if (self.check_interval > 0 and batch_idx > 0) and ((batch_idx - 1) % self.check_interval == 0):
            if trainer.logged_metrics["train/loss"] < self.current_loss:
                self.current_loss = trainer.logged_metrics["train/loss"]
                torch.save(self._stale, self.path + "/" + self.name + "_min_loss.pt")          # a stale copy
    WeightSaveCallback.on_train_start = on_train_start
    WeightSaveCallback.on_train_batch_start = on_train_batch_start


def _ck_model_only():
    from torchphysics.utils.callbacks import TrainerStateCheckpoint
    import torch

    def on_train_batch_end(self, trainer, pl_module, outputs, batch, batch_idx, dataloader_idx=0):
        if batch_idx % self.check_interval == 0:
            trainer.save_checkpoint(self.path + "/" + self.name + ".ckpt", weights_only=self.weights_only)
            ck = torch.load(self.path + "/" + self.name + ".ckpt", weights_only=False)
            for st in ck.get("optimizer_states", []):
                for k in st.get("state", {}):
                    if "momentum_buffer" in st["state"][k] and st["state"][k]["momentum_buffer"] is not None:
                        st["state"][k]["momentum_buffer"] = st["state"][k]["momentum_buffer"] * 0       # buffers reset
            torch.save(ck, self.path + "/" + self.name + ".ckpt")
    TrainerStateCheckpoint.on_train_batch_end = on_train_batch_end


REGISTRY = {
    "ck_weights_only": _ck_weights_only, "ck_final_before_last_update": _ck_final_at_start, "ck_minloss_stale": _ck_minloss_stale,
    "ck_momentum_reset": _ck_model_only,
    "trn_no_weight": _trn_no_weight, "trn_iteration_halved": _trn_iter_const, "trn_gradreverse_off": _trn_gradreverse_off,
    "trn_param_unregistered": _trn_param_unregistered, "trn_sched_every_step": _trn_sched_every_step,
    "trn_val_updates_model": _trn_val_updates_model,
    "condx_sqerr_axis1": _condx_sqerr_axis1, "condx_branch_skip": _condx_branch_skip, "condx_resample_always": _condx_resample_always,
    "condx_fs_reversed_params": _condx_fs_eval_first_point, "condx_integro_first_point": _condx_integro_own_points,
    "don_fs_collection_reversed": _don_fs_collection_reversed, "don_fs_sensors_flipped": _don_fs_discretize_sorted,
    "cond_preeval_any_static": _cond_preeval_any_static, "cond_move_left_for_both": _cond_move_left_for_both,
    "cond_static_cache_dropped": _cond_static_cache_dropped,
    "cond_inplace_dict": _cond_inplace_dict, "cond_sqerr_mean": _cond_sqerr_mean, "cond_data_rows_reversed": _cond_data_on_first_call_points,
    "cond_periodic_shared_sides": _cond_periodic_shared_sides, "cond_model_positional": _cond_model_positional,
    "fno_pad_front": _fno_pad_front, "fno_inplace_input": _fno_inplace, "fno_position_bias": _fno_position_bias,
    "fno_norm_one_side": _fno_irfft_size,
    "don_contract_reversed": _don_contract_wrong_axis, "don_grad_weight_first_copy": _don_grad_weight,
    "don_branch_cache_by_shape": _don_branch_cache_by_shape, "don_trunk_reshape": _don_trunk_reshape,
    "mdl_fcn_noreorder": _mdl_fcn_noreorder, "mdl_parallel_positional": _mdl_parallel_positional,
    "mdl_qres_batch_norm": _mdl_qres_batch_norm, "mdl_sequential_flip": _mdl_sequential_skips_reorder,
    "mdl_missing_var_zero": _mdl_harmonic_missing_var_ok,
    "do_div_offset": _do_div_offset, "do_lap_first_only": _do_lap_first_only, "do_jac_transposed": _do_jac_transposed,
    "do_rot_sign": _do_rot_sign, "do_grad_sorted_vars": _do_grad_sorted_vars,
    "law_circle_nosqrt": _law_circle_nosqrt, "law_par_bd_equal_sides": _law_par_bd_equal_sides,
    "law_union_equal_weights": _law_union_equal_weights, "law_gauss_std": _law_gauss_std,
    "law_lhs_spill": _law_lhs_noperm_shift, "law_grid_squeezed": _law_grid_half,
    "nrm_par_flip": _nrm_par_flip, "nrm_cut_noflip": _nrm_cut_noflip, "nrm_union_wrong_operand": _nrm_union_wrong_operand,
    "nrm_circle_unnormalised": _nrm_circle_unnormalised, "nrm_tri_orientation_dropped": _nrm_tri_orientation_dropped,
    "rows_repeat_tile": _rows_repeat_tile, "rows_prod_outer": _rows_prod_outer, "rows_cut_n_plus_1": _rows_cut_n_plus_1,
    "rows_len_stale": _rows_len_stale, "rows_grid_dep_first_row": _rows_grid_dep_first_row,
    "pe_circle_radius_kept": _pe_circle_radius_kept, "pe_nv_left_only": _pe_nv_left_only,
    "pe_product_keeps_vars": _pe_product_keeps_vars, "pe_translate_inner_unbound": _pe_translate_inner_unbound,
    "pe_mutates_original": _pe_mutates_original,
    "box_union_swapped": _box_union_swapped, "box_circle_axis": _box_circle_axis,
    "box_rotate_two_corners": _box_rotate_two_corners, "box_interval_first_row": _box_interval_first_row,
    "vol_circle_bd_pi_r": _vol_circle_bd, "vol_tri_no_half": _vol_tri_nohalf, "vol_sphere_34": _vol_sphere_34,
    "vol_par_signed": _vol_par_signed, "vol_cut_flag_ignored": _vol_cut_flag_ignored, "vol_density_floor": _vol_density_floor,
    "smp_tri_mirror": _smp_tri_mirror, "smp_trans_twice": _smp_trans_twice, "smp_circle_bd_radius": _smp_circle_bd_radius,
    "smp_cut_inverted": _smp_cut_inverted,
    "geo_union_and": _geo_union_and, "geo_cut_nonot": _geo_cut_nonot, "geo_translate_sign": _geo_translate_sign,
    "geo_rotate_forward": _geo_rotate_forward, "geo_param_row0": _geo_param_row0, "geo_par_no_y": _geo_par_no_y,
    "pt_slices_off": _pt_slices_off, "pt_join_order": _pt_join_order, "pt_repeat_interleave": _pt_repeat_interleave,
    "pt_eq_unordered": _pt_eq_unordered, "sp_prod_nomerge": _sp_prod_nomerge,
    "uf_defaults_head": _uf_defaults_head, "uf_pe_nocopy": _uf_pe_nocopy, "uf_positional": _uf_positional,
    "uf_pe_forgets_defaults": _uf_optional_dropped,
    "static_le": _static_le, "static_restatic_bonus": _static_nocount_restatic,
    "adaptive_le": _adaptive_le, "adaptive_newonly": _adaptive_newonly,
    "dl_target_perm": _dl_target_perm, "dl_len_floor": _dl_len_floor, "dl_agg_global_mean": _dl_agg_sum,
}
BY_PROPERTY = {
    "C19": ["ck_weights_only", "ck_final_before_last_update", "ck_minloss_stale", "ck_momentum_reset"],
    "C07": ["trn_no_weight", "trn_iteration_halved", "trn_gradreverse_off", "trn_param_unregistered", "trn_sched_every_step", "trn_val_updates_model"],
    "C04": ["cond_sqerr_mean", "cond_data_rows_reversed", "cond_periodic_shared_sides", "cond_model_positional",
            "condx_sqerr_axis1", "condx_fs_reversed_params", "condx_integro_first_point"],
    "C14": ["cond_inplace_dict", "cond_periodic_shared_sides", "condx_branch_skip", "condx_resample_always",
            "cond_preeval_any_static", "cond_move_left_for_both", "cond_static_cache_dropped"],
    "C20": ["fno_pad_front", "fno_inplace_input", "fno_position_bias", "fno_norm_one_side"],
    "C09": ["don_contract_reversed", "don_grad_weight_first_copy", "don_branch_cache_by_shape", "don_fs_collection_reversed", "don_fs_sensors_flipped"],
    "C08": ["mdl_fcn_noreorder", "mdl_parallel_positional", "mdl_qres_batch_norm", "mdl_sequential_flip", "mdl_missing_var_zero"],
    "C03": ["do_div_offset", "do_lap_first_only", "do_jac_transposed", "do_rot_sign", "do_grad_sorted_vars"],
    "C11": ["law_circle_nosqrt", "law_par_bd_equal_sides", "law_union_equal_weights", "law_gauss_std", "law_lhs_spill", "law_grid_squeezed"],
    "C06": ["nrm_par_flip", "nrm_cut_noflip", "nrm_union_wrong_operand", "nrm_circle_unnormalised", "nrm_tri_orientation_dropped"],
    "C02": ["rows_repeat_tile", "rows_prod_outer", "rows_cut_n_plus_1", "rows_len_stale", "rows_grid_dep_first_row"],
    "C17": ["pe_circle_radius_kept", "pe_nv_left_only", "pe_product_keeps_vars", "pe_translate_inner_unbound", "pe_mutates_original"],
    "C18": ["box_union_swapped", "box_circle_axis", "box_rotate_two_corners", "box_interval_first_row"],
    "C10": ["vol_circle_bd_pi_r", "vol_tri_no_half", "vol_sphere_34", "vol_par_signed", "vol_cut_flag_ignored", "vol_density_floor"],
    "C01": ["smp_tri_mirror", "smp_trans_twice", "smp_circle_bd_radius", "smp_cut_inverted"],
    "C05": ["geo_union_and", "geo_cut_nonot", "geo_translate_sign", "geo_rotate_forward", "geo_param_row0", "geo_par_no_y"],
    "C12": ["pt_slices_off", "pt_join_order", "pt_repeat_interleave", "pt_eq_unordered", "sp_prod_nomerge"],
    "C13": ["uf_defaults_head", "uf_pe_nocopy", "uf_positional", "uf_pe_forgets_defaults"],
    "C15": ["static_le", "static_restatic_bonus", "adaptive_le", "adaptive_newonly"],
    "C16": ["dl_target_perm", "dl_len_floor", "dl_agg_global_mean"],
}

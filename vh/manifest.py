"""Writes /verif/MANIFEST.json from the table below (python -m vh.manifest)."""
import json, os

ALL = ["C%02d" % i for i in range(1, 21)]
CLAIMED = {
 "C16": dict(
   text="TLC model-checks the loaders' index arithmetic (DataLoaders.tla Impl) against the property (Abs: pairing, size, coverage, aggregation) for every size tuple up to the bound, and every loader configuration TLC enumerates is iterated once on the REAL PointsDataLoader / DeepONetDataLoader / DataCondition; TLC validates each recorded pass against Abs.",
   note="Trusted: TLC, the id encoding of the tensors (cell value reveals (function, location)), float64 identity model for aggregated losses. Bounded: data-set sizes <= 7 (quick) / 9 (thorough), batch sizes <= 8 / 10 and -1.",
   technique="TLA+ Impl=>Abs model checking + TLC trace validation of exhaustively enumerated loader passes", ref="5 C16"),
}
PENDING_REASON = "check not built yet in this round (design in DESIGN.md section 5); not claimed"


def build():
    checks = []
    for pid in ALL:
        if pid not in CLAIMED:
            continue
        c = CLAIMED[pid]
        checks.append({
            "property_id": pid,
            "quick_cmd": "./check %s --tier quick" % pid,
            "thorough_cmd": "./check %s --tier thorough" % pid,
            "evidence_file": "/verif/evidence/%s.json" % pid,
            "replay_cmd_template": "./check %s --replay {path}" % pid,
            "engine": "tla-pipeline",
            "level_claimed": {"category": c.get("level", "model_checking"), "text": c["text"],
                              "design_ref": "DESIGN.md section " + c["ref"]},
            "level_note": c["note"],
            "technique": c["technique"],
        })
    m = {
        "version": 1,
        "setup_cmd": "./check --setup",
        "hooks": {"guard": "TORCHPHYSICS_VERIF", "enable": "no source hooks: the library is sequential and observed through its public API; drivers export TORCHPHYSICS_VERIF=1 for forward compatibility",
                  "baseline_off_cmd": "cd /repo && /venv/bin/python -m pytest -ra -q -p no:cacheprovider --timeout=900 --continue-on-collection-errors",
                  "source_commits": [], "add_only": True},
        "engines": [{"name": "tla-pipeline", "path": "/verif/check",
                     "serves_properties": sorted(CLAIMED),
                     "kind_free_text": "TLA+ specifications in /verif/spec checked by TLC: (A) design-level model checking Impl=>Abs, (B) scenario generation by TLC, (C) python drivers replay scenarios into torchphysics from /repo's working tree, (D) TLC validates the recorded traces against the Abs specification"}],
        "checks": checks,
        "notes": "Verdicts are TLC's: python only drives torchphysics and records integers. known_findings.json lists acknowledged defects (named Impl deviations) and fix: commits.",
        "not_applicable": [{"property_id": p, "reason": NA.get(p, PENDING_REASON)} for p in ALL if p not in CLAIMED],
    }
    return m


NA = {}

if __name__ == "__main__":
    here = os.path.dirname(os.path.dirname(os.path.abspath(__file__)))
    with open(os.path.join(here, "MANIFEST.json"), "w") as f:
        json.dump(build(), f, indent=1)
    print("MANIFEST.json written:", len(build()["checks"]), "checks")

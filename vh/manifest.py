"""Writes /verif/MANIFEST.json from the table below (python -m vh.manifest)."""
import json, os

ALL = ["C%02d" % i for i in range(1, 21)]
CLAIMED = {
 "C16": dict(
   text="TLC model-checks the loaders' index arithmetic (DataLoaders.tla Impl) against the property (Abs: pairing, size, coverage, aggregation) for every size tuple up to the bound, and every loader configuration TLC enumerates is iterated once on the REAL PointsDataLoader / DeepONetDataLoader / DataCondition; TLC validates each recorded pass against Abs.",
   note="Trusted: TLC, the id encoding of the tensors (cell value reveals (function, location)), float64 identity model for aggregated losses. Bounded: data-set sizes <= 7 (quick) / 9 (thorough), batch sizes <= 8 / 10 and -1. Grid-shaped data (N, 2, 1) for PointsDataLoader. Per-function DeepONet loaders: a second epoch after dataset.trunk_batch_size was changed.",
   technique="TLA+ Impl=>Abs model checking + TLC trace validation of exhaustively enumerated loader passes", ref="5 C16"),
 "C15": dict(
   text="TLC checks the refinement StaticImpl (the code's counter/cache machine) => StaticAbs (run lengths as the property states them) and the adaptive replacement rule => Abs for all histories up to the bound; TLC-generated call histories (exhaustive short, random long) are replayed on real sampler objects and every recorded history is validated step by step against the Abs machine by TLC; the random variant's keep frequencies are judged by TLC against a binomial acceptance region.",
   note="Trusted: TLC; identification of point sets by value (fresh random draws are distinct a.s.); z=6 acceptance region for the random variant. Bounded: intervals {1..5,7,inf}, histories <= 24 calls, loss vectors over 0..4 with n <= 5, ratios {0,1/4,1/2,3/4,1}. A sibling static sampler made from the same base sampler; the adaptive sampler also with a batch of two parameter rows.",
   technique="TLA+ refinement checking (TLC) + TLC-generated behaviours replayed into the code + TLC trace validation", ref="5 C15"),
 "C13": dict(
   text="UserFun.tla states the calling convention (received = declared parameters bound by name, defaults for absent optional ones, rejection of missing required names, the partial-evaluation law, frame conditions); TLC model-checks the code-shaped wrapper heap (aliasing, deep copy) against it and enumerates every signature up to 4 parameters with every argument subset; each is executed on real UserFunction / DomainUserFunction objects with a recording function and TLC validates every recorded step.",
   note="Trusted: TLC; the generated recording function (locals() + position-weighted sum). Bounded: <= 4 parameters from a pool of 4 names (+1 foreign name), histories <= 12 operations on <= 6 wrappers.",
   technique="TLA+ model checking of the wrapper heap + exhaustive signature enumeration by TLC + TLC trace validation", ref="5 C13"),
 "C12": dict(
   text="PointsTable.tla defines Points/Space as a table with named column groups (get by row/column selectors, set, join, cat, repeat, unsqueeze, arithmetic, order-sensitive equality, space product/sub-space/slice); TLC checks the algebraic laws the property names over all small tables, enumerates the whole index universe on a one-axis and a two-axis table and generates random operation histories; every step is executed on real Points objects and TLC compares the recorded result (and the operands before/after) with the table semantics.",
   note="Trusted: TLC; cell ids are distinct integers. Bounded: <= 3 variables of dims 1..2, <= 4 rows (exhaustive index universe), histories <= 10 operations on <= 9 tables, one or two batch axes. Advanced row index + column selection on two batch axes is outside the modelled universe; on one axis its zipped result is the known finding pt_zipped_index. Name slices with steps (reversed, open ends), space algebra on all ordered pairs of a pool where one name has different dimensions. from_coordinates with coordinates of different dtypes (smaller dtype first).",
   technique="TLA+ table semantics model-checked for its laws + TLC-enumerated index universe and histories + TLC trace validation", ref="5 C12"),
 "C05": dict(
   text="Geometry.tla gives every domain expression its denotation In(e, Q) in exact integer arithmetic on homogeneous lattice points (union=or, cut=and-not, product=conjunction, translate/rotate=inverse image, parameter-dependent shapes evaluated with each point's own parameter row); TLC generates the expressions (all of depth<=1 plus random deeper ones), the real _contains is queried on lattice points and TLC compares every bit that is not within tolerance of the boundary; boundary objects must accept their own boundary samples and reject far points.",
   note="Trusted: TLC, the builder vh/universe.py (AST -> Domain). Bounded universe: shape data quarter-integers in [-3,3]^d, six rational rotations, parameters in {0,1,2}, depth <= 3 (quick) / 4, at most one non-axis rotation per path; points within 2/256 of the boundary are not judged. ShapelyPolygon / TrimeshPolyhedron are not in the universe. Since the third session the universe also holds ShapelyPolygon (crossing-number denotation, holes, both orientations) and TrimeshPolyhedron (tetrahedral decomposition checked against the surface by MeshWF), rotations by a parameter-driven quarter turn (Rotate.from_angles) and rational 3-D rotations; histories on one Points object; own samples of the 256-fold boundary. Known finding bool_bd_shared_piece (C05).",
   technique="TLA+ denotational oracle evaluated by TLC on recorded membership bits (trace validation) of TLC-generated expressions", ref="5 C05"),
 "C01": dict(
   text="Every row returned by the sampling methods of TLC-generated domain expressions (interior and boundary; domain-level random/grid with n and density; RandomUniform/Grid/Gaussian/LHS/adaptive/filtered samplers; parameter batches) is recorded with the parameter row it is paired with and TLC checks it against the denotation of Geometry.tla (closed set resp. topological boundary up to 2/256, filter satisfied); calls run under a watchdog, a hang or an exception on a positive-measure expression is a violation.",
   note="Trusted: TLC, vh/universe.py. Same bounded universe as C05; positive measure is decided by TLC on a 15x15 lattice (>= 5% of the window), expressions below that are not judged. Whether a call is judgeable is decided by TLC on a lattice over all space variables (enough of the set, and a tenth of it passes the filter). Calls run under a CPU-time watchdog. Known findings: translate_bbox_per_row (three call sites), bool_bd_shared_piece, bool_bd_empty_operand, bool_empty_operand. Universe extended as for C05 (polygons, polyhedra, 3-D / parameter-driven rotations); the number of returned points (n per parameter row) is judged too. Parameter rows at which a ball's radius function is negative are outside the input universe (not judged).",
   technique="TLC trace validation of recorded samples against the TLA+ denotation; expressions generated by TLC", ref="5 C01"),
 "C10": dict(
   text="Geometry.tla computes the exact measure of every expression whose measure the property fixes as (a + b*pi)/den in integer arithmetic (primitives and boundaries for every parameter row and vertex orientation, verified-disjoint unions, verified-contained cuts, independent products, translations, rotations); TLC compares the recorded volume() per row, the user-set override and the number of points returned by density sampling (exact ceil(d*vol) for non-rejection shapes, at most that for grids).",
   note="Trusted: TLC, vh/universe.py. Tolerances: relative 2^-8 on volumes, pi in [3216/1024, 3217/1024], side lengths by integer sqrt at 1/1024. Disjointness/containment are verified by TLC on a 19x19 lattice, not taken from the flag. Rejection-based counts (triangle, Boolean combinations) are not judged. Polygons / polyhedra and their boundaries (shoelace, tetrahedra, edge lengths, triangle areas), user volume given as a tensor through a history of density samplings.",
   technique="exact rational+pi measure in TLA+, TLC trace validation of recorded volumes and counts", ref="5 C10"),
 "C18": dict(
   text="For every TLC-generated expression and batch of parameter rows the recorded bounding_box (outward rounded) must contain every lattice point of the set Geometry.tla denotes at each row, be tight (equal to the exact box) for primitives at a single row, have the documented flat shape, and the NormalizationLayer built from it must map the domain's lattice points into [-1,1]^d; all judged by TLC.",
   note="Trusted: TLC, vh/universe.py. Enclosure judged on a 19x19(x5) lattice with 3/256 tolerance; boundaries are judged against the closed domain they bound; Point domains (measure zero, padded box) are not judged. Known findings: translate_bbox_per_row (shape pinned by an existing test), dep_product_box_estimate (documented random estimate of dependent products). Polygons, polyhedra, 3-D rotations (stratified by matrix); the normalization layer is also fed with the variables in the opposite order.",
   technique="TLC trace validation of recorded boxes against the TLA+ denotation (enclosure, tightness, normalization)", ref="5 C18"),
 "C17": dict(
   text="For every parameter-dependent expression TLC generates and every non-empty subset of its free variables, D(**values) is built on the real domain; TLC checks that its membership bits equal the denotation of the ORIGINAL expression at (values + each point's remaining parameter row), that volume and bounding box agree with the original evaluated at the joint parameters, that samples lie in the denoted set, that necessary_variables equals FreeVars (before) and FreeVars minus the bound names (after), and that the original is unchanged. Geometry.tla additionally defines PE(e,b) and FreeVars and TLC checks In(PE(e,b)) = In(e, +b) on the model.",
   note="Trusted: TLC, vh/universe.py. Same bounded universe as C05; bindings t,k in {0,1,2}. Volume/box agreement is between two recordings of the real code. Dependent products use documented random estimates for volume/box and are compared on membership, samples and necessary_variables only. Known finding: single_bd_point_side (pinned by an existing test). PlotSampler and AnimationSampler (plot_samplers.py) on every fully / all-but-one bound expression; user volume given as a function of a bound variable on Boolean combinations.",
   technique="TLC trace validation against the TLA+ denotation + TLC model check of the substitution law PE", ref="5 C17"),
 "C02": dict(
   text="Samplers.tla states the row bookkeeping rules (n rows per parameter row, pairing in order, product = first factor sampled with the rows of the second as parameters, sum = concatenation, append = column stack, static = cached, len = rows of a parameter-free call) as a recursive checker over decoded tables; TLC model-checks the code-shaped construction (repeat/repeat_interleave, evaluation order) against it for every AST, enumerates all sampler compositions up to depth 2 with 0/1/3 parameter rows, and validates the tables the real samplers return.",
   note="Trusted: TLC; the id decoding of cells (moving interval reveals t, data ids k/16, grid position in twelfths). Bounded: 7 leaf kinds, n <= 3, depth <= 2, k in {0,1,3}; density-based samplers are covered by C10/C01, not here.",
   technique="TLA+ Impl=>Abs model checking of the table construction + exhaustive AST enumeration by TLC + TLC trace validation", ref="5 C02"),
 "C06": dict(
   text="For boundaries of all primitives (slanted, clockwise, parameter-dependent, 1-D..3-D) and of TLC-generated nested unions/cuts/intersections, normal() is recorded at the points of the boundary's own random and grid samplers; TLC checks on the exact denotation that each normal is finite, of unit length and outward (a step along it leaves the set, a step against it enters), independently of how the library computes normals.",
   note="Trusted: TLC, vh/universe.py. Steps of 8/4/2 fine units (1/256); samples within 16/256 of a second primitive's boundary or at a corner of the primitive itself (ring test) are skipped and counted; normals of translated/rotated boundaries are not part of the API (no normal method). Polygon outlines (grids that hit vertices and prolongations of sides), polyhedra incl. an inside-out and a two-body mesh (3-D flatness test skips edges / vertices), unions / cuts with declared flags. Sample sets at parameter rows where a ball's radius is <= 0 are not judged.",
   technique="TLC trace validation of recorded normals against the TLA+ denotation (outward step test)", ref="5 C06"),
 "C11": dict(
   level="model_checking",
   text="SamplingLaws.tla turns each named law into an acceptance region on integer counts evaluated by TLC: uniform = binomial region (z=6) around cell masses that TLC computes from the denotation (16x16 sub-lattice per unit box, explicit slack for cut boxes; exact length shares for polygon edges, quadrants for circles), grid = every box's share within a discretisation bound, Gaussian = cell probabilities from a Phi table on boxes, Latin hypercube = slab indices form a permutation on every axis. TLC picks law x expression x partition; the real samplers draw 400..16384 points per run.",
   note="Statistical decision: z=6 (false alarms < 1e-8 per cell); biases below a few percent of a cell mass are invisible at these N (stated in DESIGN 5 C11/9). Trusted: TLC, box binning of the driver (a quantisation), vh/universe.py. Polygons (interior, density, grid, boundary by edge length), accumulated small grids on thin shapes, marginal law of dependent products (history and two parameter rows).",
   technique="TLC-evaluated acceptance regions (reference measure from the TLA+ denotation) on recorded sample counts", ref="5 C11"),
 "C03": dict(
   text="Poly.tla defines grad, laplacian, div, jac, rot, partial, normal_derivative, convective, sym_grad and matrix_div by term rewriting on polynomials over named input groups (incl. variable-group order, column offsets, mixed terms); TLC enumerates the programs, the real operators are applied to torch programs built from the same terms, and TLC compares every recorded row exactly, requires batch = single-row results, and zeros (not errors) for programs constant or linear in a listed variable.",
   note="Trusted: TLC, the program builder of the driver. Universe: polynomial programs of degree <= 3 over x(2), t(1), k(1), y(3) with integer rows (exact in float32/float64); transcendental programs are outside. Batches with two leading axes for the operators that accept them; divergences / Jacobians / matrix divergences over three variable groups. Gradient / Laplacian of the convective term (polynomial products).",
   technique="term-rewriting calculus in TLA+, exhaustive case enumeration by TLC, TLC trace validation", ref="5 C03"),
 "C08": dict(
   text="Models.tla states what 'row-wise function of named variables' means on observations (named input row -> output row): equal named content => equal output across variable orders, row orders, batch compositions and batch-axis arrangements; missing variables rejected; derived input/output spaces; Sequential = composition and Parallel = join of the observed parts. TLC model-checks closure of these laws under composition, enumerates 36 model ASTs with all variable permutations, and validates the observations recorded from real (randomly initialised) models.",
   note="Trusted: TLC; fixed point 2^-12 with tolerance 8 units. Bounded: leaves FCN/Harmonic/Polynomial/QRES/DeepRitz/Normalization with <= 3 input variables, depth <= 3, batches of <= 6 rows from a pool of 6, one or two batch axes. FCNs with the library's own activations (relu^n with different n, adaptive, sinus); outputs re-observed after unrelated models were constructed and evaluated.",
   technique="TLA+ observation laws (model-checked for closure) + exhaustive presentation enumeration by TLC + TLC trace validation", ref="5 C08"),
 "C09": dict(
   text="DeepONet.tla states the contraction law Out[i][j][c] = sum_k B[i][c][k] T[j][c][k] on OBSERVED branch/trunk features, functional consistency of the features across batch compositions and branch-input forms, the fix_input history, and fast == plain (outputs, first and second input derivatives, parameter gradients). Integer networks make every quantity an exact integer; TLC enumerates 48 configurations x 7 batches and decides every recorded trace.",
   note="Trusted: TLC; integer weights -2..2 with Identity/Square activations in float64 (exact). Bounded: output dim <= 2, <= 3 neurons per component, hidden <= (3,2), 1-3 functions x 1-3 locations. Branch input as tensor, Points, callable, FunctionSet and sum of FunctionSets; activation lists; parameter gradients of derivative losses; same-object history without gradient tracking. The training-time function-set machine is checked in C04/C14 (CondExt.tla). Derivatives w.r.t. trunk points repeated per function; one FunctionSet object shared by two networks with different discretisation points.",
   technique="TLA+ laws on observed integer features + TLC trace validation; configurations enumerated by TLC", ref="5 C09"),
 "C20": dict(
   text="Fourier.tla defines circular shifts and grid refinement as index maps on recorded fields and the laws layer(Shift(u,s)) = Shift(layer(u),s), coarse/fine agreement at shared nodes for band-limited input, and input immutability; MC_Fourier model-checks that the layer's mode padding/truncation bookkeeping is a diagonal frequency map for all spectrum lengths and mode counts. TLC enumerates 1-D and 2-D layer / FNO configurations; real layers run on random fields and every recorded field pair is decided by TLC in fixed point.",
   note="Trusted: TLC; fixed point 2^-12 with tolerance 6 units; torch.roll is used only to build the shifted INPUT, which TLC re-checks against the recorded input. Bounded: d in {1,2}, N <= 12 per axis (plus grids oversampling the kept modes 8+ times: N = 16, 24, 33; 16x8, 8x24, 16x17), <= 3 channels, modes <= 9, 2/3-layer FNO with Tanh; FNO input spaces of two variables presented in the other order (caller's tensor unchanged, same result); batch-norm variant excluded.",
   technique="TLA+ index-map laws on recorded fixed-point fields (TLC trace validation) + TLC model check of the mode bookkeeping", ref="5 C20"),
 "C04": dict(
   text="Conditions.tla states, in an exact integer universe (affine integer models, integer sample points, affine data functions), what the residual must receive by name row by row (coordinates, model outputs, parameter, data functions at the same rows, left/right values for periodic conditions) and the documented reduction (mean of squared residual summed over components / plain mean). TLC enumerates 624 single-condition scenarios over kinds, residual families, space / model / signature orders, static or not, n; real conditions are built with recording residuals and TLC validates the recorded arguments and the loss (as an exact rational) after every evaluation.",
   note="Trusted: TLC; recording residual functions generated from the scenario; float64 affine models. Covered kinds: PINN, mean/Deep-Ritz, periodic (Conditions.tla) and PIDeepONet, DeepONet data, integro, Deep-Ritz, parameter and HPM conditions (CondExt.tla, integer DeepONets whose output table is observed by a direct call). Data-loader aggregation is covered in C16; HPM conditions (equation loss at a sampler: coordinates + learnable parameter + data functions, no model output; at data points: batch-wise aggregation incl. norm / root / full data set) are covered in CondExt.tla; variational conditions are not driven. Integro residuals with derivatives under the integral; x-only conditions using data functions with default arguments.",
   technique="TLA+ evaluation semantics in an exact integer universe + TLC trace validation of exhaustively enumerated scenarios", ref="5 C04"),
 "C14": dict(
   text="MC_Cond model-checks the dictionary handling (copy vs in-place) against isolation for all construct/evaluate interleavings of 3 conditions; TLC generates histories of constructing and evaluating up to three real conditions that share user dictionaries (static and non-static samplers, periodic left/right data) and the trace monitor checks after every step that each condition received its data functions on ITS OWN points, that the user dictionaries still hold the user's function objects, and that static conditions repeat their loss.",
   note="Trusted: TLC; as C04. Histories of 7 operations over 14 candidate conditions sharing 2 dictionaries, 3 sampler objects (static / non-static / resampling) and a model object, with the train-start event; plus histories of 6 DeepONet conditions sharing 2 networks and 3 function sets under the Solver's iteration numbers (MC_FuncSet model-checks the design; -simulate, 400+250 quick / 5000+4000 thorough). 20 candidate conditions (one built with track_gradients=False) over 3 dictionaries (two hold user-wrapped functions; f(x, t=0) defaults; conditions that sample x only); a data function given as ONE shared table to integro / Deep-Ritz conditions.",
   technique="TLA+ model checking of shared-object interference + TLC-generated histories replayed into the code + stepwise TLC trace validation", ref="5 C14"),
 "C07": dict(
   text="Training.tla is the reference optimisation loop in exact rational arithmetic (weighted sum of condition losses, SGD with momentum on every learnable incl. inverse parameters and ascending adaptive point weights, StepLR with step frequency, validation as a stutter on learnable state). TLC model-checks the loop's invariants, enumerates configurations whose reference trajectory fits the 32-bit budget, and the trace monitor steps the log of real Solver + Trainer runs (which condition with which iteration index; every learnable and the learning rate after each batch and around validation) against the reference, bit for bit.",
   note="Trusted: TLC; float64 affine model and dyadic hyper-parameters so every learnable is an exact rational; Fraction.limit_denominator(2^24) in the driver. Bounded: N = 3 (quick) / 4 steps, <= 3 training conditions, SGD(+momentum)/StepLR only (Adam/LBFGS states are not exactly representable). Also DataCondition in mini-batch mode (own and shared loader for validation), weights set after the Solver exists, eval() between two fits; rational budget 2^14.",
   technique="TLA+ reference loop in rational arithmetic + stepwise TLC trace validation of real training runs", ref="5 C07"),
 "C19": dict(
   level="fault_enumeration",
   text="Every interruption step k < N at which TrainerStateCheckpoint writes a file is enumerated by TLC together with the check interval and the C07 configuration (momentum and schedulers, inverse parameters, adaptive weights): the interrupted run's objects are discarded, fresh objects resume from the file and train to N, and TLC compares learnables, learning rate and momentum buffers with the reference loop of Training.tla after N steps (and with the uninterrupted real run); the files of WeightSaveCallback are loaded into freshly built models and compared with the reference initial / final / checked-step weights.",
   note="Trusted: TLC, pytorch-lightning's resume path as installed; exact rationals as in C07. Bounded: N = 4, interval in {1,2}, all k in 1..3 with (k-1) mod interval = 0; weights_only = False. One OptimizerSetting object may be shared by the Solvers of all three runs; the resumed run carries its own weight-saving callback whose files are judged. LBFGS-only effects (closure evaluated several times per step) are outside the universe.",
   technique="crash-point enumeration by TLC + TLA+ rational reference loop + TLC trace validation of resumed real runs", ref="5 C19"),
}
PENDING_REASON = "check not built yet in this round (design in DESIGN.md section 5); not claimed"


def build():
    checks = []
    for pid in ALL:
        if pid not in CLAIMED:
            continue
        c = CLAIMED[pid]
        checks.append({
            "property_id": pid,
            "quick_cmd": "./check %s --tier quick" % pid,
            "thorough_cmd": "./check %s --tier thorough" % pid,
            "evidence_file": "/verif/evidence/%s.json" % pid,
            "replay_cmd_template": "./check %s --replay {path}" % pid,
            "engine": "tla-pipeline",
            "level_claimed": {"category": c.get("level", "model_checking"), "text": c["text"],
                              "design_ref": "DESIGN.md section " + c["ref"]},
            "level_note": c["note"],
            "technique": c["technique"],
        })
    m = {
        "version": 1,
        "setup_cmd": "./check --setup",
        "hooks": {"guard": "TORCHPHYSICS_VERIF", "enable": "no source hooks: the library is sequential and observed through its public API; drivers export TORCHPHYSICS_VERIF=1 for forward compatibility",
                  "baseline_off_cmd": "cd /repo && /venv/bin/python -m pytest -ra -q -p no:cacheprovider --timeout=900 --continue-on-collection-errors",
                  "source_commits": [], "add_only": True},
        "engines": [{"name": "tla-pipeline", "path": "/verif/check",
                     "serves_properties": sorted(CLAIMED),
                     "kind_free_text": "TLA+ specifications in /verif/spec checked by TLC: (A) design-level model checking Impl=>Abs, (B) scenario generation by TLC, (C) python drivers replay scenarios into torchphysics from /repo's working tree, (D) TLC validates the recorded traces against the Abs specification"}],
        "checks": checks,
        "notes": "Verdicts are TLC's: python only drives torchphysics and records integers. known_findings.json lists acknowledged defects (named Impl deviations) and fix: commits.",
        "not_applicable": [{"property_id": p, "reason": NA.get(p, PENDING_REASON)} for p in ALL if p not in CLAIMED],
    }
    return m


NA = {}

if __name__ == "__main__":
    here = os.path.dirname(os.path.dirname(os.path.abspath(__file__)))
    with open(os.path.join(here, "MANIFEST.json"), "w") as f:
        json.dump(build(), f, indent=1)
    print("MANIFEST.json written:", len(build()["checks"]), "checks")

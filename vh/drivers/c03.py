"""C03 driver: build polynomial programs from torch ops on leaf tensors, apply the real differential operators,
log the results per row as integers (float64 / float32), for the whole batch and for every row alone."""
import torch
from torchphysics.utils import differentialoperators as do
from .common import main, watched, pick

GIDX = {"x": [0, 1], "t": [2], "k": [3], "y": [4, 5, 6]}


def run_one(s):
    op, F, gs, aux, rows = s["op"], s["F"], s["gs"], s["aux"], s["rows"]
    dtype = torch.float64 if pick(s["tid"], 4) else torch.float32
    res = {"exc": "", "batch": [], "single": [], "dtype": "f64" if dtype == torch.float64 else "f32", "shape_ok": True}

    def evaluate(rws, axes=1):
        # axes = 2: a batch with TWO leading axes (2, n, d), slice 0 = the rows, slice 1 = the rows in reverse order
        n = len(rws)
        data = {g: [[float(r[i]) for i in idx] for r in rws] for g, idx in GIDX.items()}
        if axes == 2:
            inp = {g: torch.tensor([data[g], list(reversed(data[g]))], dtype=dtype, requires_grad=True) for g in GIDX}
        else:
            inp = {g: torch.tensor(data[g], dtype=dtype, requires_grad=True) for g in GIDX}
        lead = (2, n) if axes == 2 else (n,)
        scal = {}
        for g, idx in GIDX.items():
            for j, i in enumerate(idx):
                scal[i] = inp[g][..., j:j + 1]

        def poly(p):
            out = torch.zeros(lead + (1,), dtype=dtype)
            for term in p:
                v = torch.full(lead + (1,), float(term["c"]), dtype=dtype)
                for i, e in enumerate(term["e"]):
                    for _ in range(e):
                        v = v * scal[i]
                out = out + v
            return out
        comps = [poly(p) for p in F]
        vars_ = [inp[g] for g in gs]
        if op in ("grad", "laplacian", "partial"):
            u = comps[0]
            fn = {"grad": do.grad, "laplacian": do.laplacian, "partial": do.partial}[op]
            r = fn(u, *vars_)
        elif op == "normal_derivative":
            nrm = torch.cat([poly(a) for a in aux], dim=-1)
            r = do.normal_derivative(comps[0], nrm, *vars_)
        elif op == "div":
            r = do.div(torch.cat(comps, dim=-1), *vars_)
        elif op == "jac":
            r = do.jac(torch.cat(comps, dim=1), *vars_)
        elif op == "convective":
            r = do.convective(torch.cat(comps, dim=1), torch.cat([poly(a) for a in aux], dim=1), *vars_)
        elif op in ("conv_grad", "conv_lap"):          # a second operator applied to the result of convective()
            cv = do.convective(torch.cat(comps, dim=1), torch.cat([poly(a) for a in aux], dim=1), *vars_)
            r = (do.grad if op == "conv_grad" else do.laplacian)(cv[:, :1], *vars_)
        elif op == "sym_grad2":
            r = 2.0 * do.sym_grad(torch.cat(comps, dim=1), *vars_)
        elif op == "matrix_div":
            nn = sum(len(GIDX[g]) for g in gs)
            M = torch.cat(comps, dim=1).reshape(n, len(comps) // nn, nn)
            r = do.matrix_div(M, *vars_)
        elif op == "rot":
            r = do.rot(torch.cat(comps, dim=1), *vars_)
        else:
            raise ValueError(op)
        if axes == 2:
            return r.detach().reshape(2 * n, -1)
        return r.detach().reshape(n, -1)          # (a view of the operator's result: read later, see below)

    def ints(r):
        out = []
        for row in r.tolist():
            out.append([int(round(v)) if abs(v - round(v)) < 1e-3 and abs(v) < 2 ** 30 else 2 ** 30 for v in row])
        return out

    def two_calls():
        # the result of the first call is READ only after a second call of the same operator with inputs of the same shape
        # (results must not share storage): "batch" = first result read late, "batch2" = second result, rows put back in order
        t1 = evaluate(rows)
        t2 = evaluate(list(reversed(rows)))
        return ints(t1), list(reversed(ints(t2)))
    rr = watched(two_calls)
    if rr[0] != "ok":
        res["exc"] = rr[1] if len(rr) > 1 else "hang"
        res["msg"] = rr[2][:160] if len(rr) > 2 else ""
        return res
    res["batch"], res["batch2"] = rr[1]
    # the operators that accept a batch with two leading axes (functions x points): per point the same values
    res["batch3"], res["exc3"] = [], ""
    if op in ("laplacian", "partial", "normal_derivative", "div") or (op == "grad" and len(gs) == 1):
        r3 = watched(lambda: ints(evaluate(rows, axes=2)))
        if r3[0] != "ok":
            res["exc3"] = r3[1] if len(r3) > 1 else "hang"
        else:
            res["batch3"] = r3[1]
    for rw in rows:
        r1 = watched(lambda: ints(evaluate([rw])))
        res["single"].append(r1[1][0] if r1[0] == "ok" else [])
    return res


if __name__ == "__main__":
    main(run_one)

"""Shared driver helpers: watchdog, quantisation, scenario/trace I/O."""
import json, signal, sys, os, fractions, traceback


class Hang(Exception):
    pass


def _alarm(signum, frame):
    raise Hang()


def watched(fn, seconds=12):
    """Run fn() under a watchdog.  Returns ('ok', value) | ('exc', ExcName, msg) | ('hang',).
    The budget is CPU time of this (single-threaded) worker process (ITIMER_PROF), so the verdict does not depend on
    how busy the machine is; a wall-clock alarm of 20x the budget catches calls that block without computing."""
    old = signal.signal(signal.SIGPROF, _alarm)
    old2 = signal.signal(signal.SIGALRM, _alarm)
    signal.setitimer(signal.ITIMER_PROF, seconds)
    signal.alarm(int(seconds * 20))
    try:
        return _watched_inner(fn)
    except Hang:          # the timer fired while the timers were being disarmed
        return ("hang",)
    finally:
        signal.setitimer(signal.ITIMER_PROF, 0)
        signal.alarm(0)
        signal.signal(signal.SIGPROF, old)
        signal.signal(signal.SIGALRM, old2)


def _watched_inner(fn):
    try:
        v = fn()
        return ("ok", v)
    except Hang:
        return ("hang",)
    except MemoryError:
        return ("hang",)
    except Exception as e:  # error paths are events too
        if isinstance(e, RuntimeError) and "allocate memory" in str(e):
            # a rejection loop whose proposals grow without bound runs into the address-space limit of the worker (set in _work)
            # before it runs into the watchdog: the same event, the call does not come back with a result
            return ("hang",)
        return ("exc", type(e).__name__, str(e)[:200])
    finally:
        signal.setitimer(signal.ITIMER_PROF, 0)
        signal.alarm(0)


def fx(v, scale=256):
    """fixed point: round(v*scale) as int; NaN/inf -> sentinel the specs reject (2**30)."""
    import math
    v = float(v)
    if math.isnan(v) or math.isinf(v):
        return 2 ** 30
    r = int(round(v * scale))
    if abs(r) >= 2 ** 30:
        return 2 ** 30
    return r


def rat(v, maxden=4096):
    f = fractions.Fraction(float(v)).limit_denominator(maxden)
    return [f.numerator, f.denominator]


def _limit_memory(extra_gb=4):
    """address-space limit of this worker = what it uses now + extra_gb, so that a call whose allocations grow without bound
    fails inside the call (event 'hang') instead of exhausting the machine"""
    try:
        import re, resource
        vm = int(re.search(r"VmSize:\s+(\d+) kB", open("/proc/self/status").read()).group(1)) * 1024
        lim = vm + (extra_gb << 30)
        resource.setrlimit(resource.RLIMIT_AS, (lim, lim))
    except Exception:
        pass


def _work(run_one, scen, seed, tf):
    import torch, numpy, random
    torch.set_num_threads(1)
    _limit_memory()
    cov = None
    if os.environ.get("VERIF_COVERAGE"):          # tools/coverage_map.sh: which lines of torchphysics do the drivers reach?
        import coverage
        cov = coverage.Coverage(data_file=os.path.join(os.environ["VERIF_COVERAGE"], ".coverage"), data_suffix=True,
                                source=["/repo/src/torchphysics"], timid=False)
        cov.start()
    try:
        _work_inner(run_one, scen, seed, tf)
    finally:
        if cov is not None:
            cov.stop()
            cov.save()


def _work_inner(run_one, scen, seed, tf):
    import torch, numpy, random
    out = []
    for s in scen:
        sd = (seed * 1000003 + s["tid"]) % (2 ** 31)
        torch.manual_seed(sd)
        numpy.random.seed(sd)
        random.seed(sd)
        import time as _time
        _t0 = _time.time()
        try:
            t = run_one(s)
        except Exception as e:
            t = {"driver_error": type(e).__name__ + ": " + str(e)[:300], "tb": traceback.format_exc()[-1500:], "events": []}
        t["tid"] = s["tid"]
        t["ms"] = int((_time.time() - _t0) * 1000)
        t.setdefault("scenario", s)
        out.append(t)
    json.dump(out, open(tf, "w"))


def pick(tid, k, salt=0):
    """variant number in 0..k-1 for trace id tid.  NOT tid % k: TLC serialises a scenario set in its normal-form order,
    so the parity (or residue) of the position is often one of the scenario's own fields (C20: odd = layer, even = FNO)
    and a variant keyed on it would never meet half of the universe.  A multiplicative hash decorrelates the two."""
    return (((tid + 1) * 2654435761 + salt * 0x9E3779B1) >> 13) % k


def main(run_one):
    """driver entry: argv = scenarios.json traces.json seed [shards].  The library is imported once,
    then the scenarios are sharded over forked workers (sharing the imported pages)."""
    sf, tf, seed = sys.argv[1], sys.argv[2], int(sys.argv[3])
    shards = int(sys.argv[4]) if len(sys.argv) > 4 else 1
    import torch
    torch.set_num_threads(1)
    if os.environ.get("VERIF_MUTANT"):
        from .. import mutants
        mutants.apply(os.environ["VERIF_MUTANT"])
    scen = json.load(open(sf))
    shards = max(1, min(shards, len(scen)))
    if shards == 1:
        _work(run_one, scen, seed, tf)
        return
    pids = []
    for k in range(shards):
        pid = os.fork()
        if pid == 0:
            rc = 0
            try:
                _work(run_one, scen[k::shards], seed, "%s.%d" % (tf, k))
            except BaseException:
                traceback.print_exc()
                rc = 1
            sys.stdout.flush(); sys.stderr.flush()
            os._exit(rc)
        pids.append(pid)
    bad = 0
    for pid in pids:
        _, st = os.waitpid(pid, 0)
        bad |= st
    if bad:
        sys.exit(3)
    out = []
    for k in range(shards):
        out.extend(json.load(open("%s.%d" % (tf, k))))
        os.unlink("%s.%d" % (tf, k))
    out.sort(key=lambda t: t["tid"])
    json.dump(out, open(tf, "w"))

"""C07 / C19 driver: real Solver + pytorch_lightning Trainer on exact (dyadic) problems.  A callback logs every learnable
tensor, the optimizer state and the learning rate after every training batch and around validation as exact rationals;
recording wrappers log which condition was evaluated with which iteration index.  For C19 the run is interrupted at
step k (process state discarded), resumed from the checkpoint in fresh objects and compared with the uninterrupted run."""
import fractions, os, shutil, tempfile, warnings, logging
import torch
import pytorch_lightning as pl
import torchphysics as tp
from torchphysics.problem.spaces import Points
from .common import main, watched, pick

logging.getLogger("pytorch_lightning").setLevel(logging.ERROR)
logging.getLogger("lightning").setLevel(logging.ERROR)
X, Uo = tp.spaces.R1("x"), tp.spaces.R1("u")


def rat(v):
    v = float(v)
    if v != v or abs(v) > 1e6:
        return [1 << 30, 1]
    f = fractions.Fraction(v).limit_denominator(1 << 24)
    if abs(f.numerator) >= (1 << 30) or f.denominator >= (1 << 30):
        return [1 << 30, 1]                 # outside the 32-bit budget of the oracle: can never equal a reference value
    return [f.numerator, f.denominator]


class Lin0(torch.nn.Module):
    """x -> x w^T + b with the bias as a 0-dim (scalar) parameter, as e.g. the slope of the library's AdaptiveActivationFunction"""

    def __init__(self):
        super().__init__()
        self.weight = torch.nn.Parameter(torch.zeros(1, 1, dtype=torch.float64))
        self.bias = torch.nn.Parameter(torch.tensor(0.0, dtype=torch.float64))

    def forward(self, x):
        return x @ self.weight.T + self.bias


class Affine(tp.models.Model):
    def __init__(self, a0, b0, tied=False, scalar=False):
        super().__init__(X, Uo)
        self.lin = Lin0() if scalar else torch.nn.Linear(1, 1).double()
        if tied:          # one submodule registered under two names (weight tying): state_dict lists both, parameters() one
            self.enc = torch.nn.Linear(1, 1).double()
            self.dec = self.enc
        with torch.no_grad():
            self.lin.weight.fill_(float(a0))
            self.lin.bias.fill_(float(b0))

    def forward(self, points):
        points = self._fix_points_order(points)
        return Points(self.lin(points.as_tensor), self.output_space)


class Rec(torch.nn.Module):
    """recording wrapper around a condition (same interface: name, weight, forward(device, iteration))"""

    def __init__(self, cond, cid, log):
        super().__init__()
        self.cond, self.cid, self.log = cond, cid, log
        self.name, self.weight, self.track_gradients = cond.name, cond.weight, cond.track_gradients

    def forward(self, device="cpu", iteration=None):
        self.log.append({"e": "cond", "c": self.cid, "it": -1 if iteration is None else int(iteration)})
        return self.cond(device=device, iteration=iteration)

    def _move_static_data(self, device):
        self.cond._move_static_data(device)


def build(cfg, log, setting=None):
    model = Affine(cfg["a0"], cfg["b0"], tied=cfg.get("tied", False), scalar=cfg.get("scalar", False))
    kap = tp.models.Parameter(float(cfg["k0"]), tp.spaces.R1("kappa"))
    kap.as_tensor.data = kap.as_tensor.data.double()
    objs = {"model": model, "kap": kap, "adapt": None}

    # condition names: unique ones, or (every second configuration) the library's defaults, which coincide for
    # conditions of the same class
    def nm(cid):
        return {"name": "c%d" % cid} if cfg.get("named", True) else {}

    loaders = {}
    late = bool(cfg.get("late_weights"))

    def mk(c, cid, train):
        xs = torch.tensor([[float(x)] for x in c["xs"]], dtype=torch.float64) if c["xs"] else None
        w = c["wn"] / c["wd"]
        if late and train:          # built with another weight; the user sets the real one after the Solver exists
            w = w + 0.25
        if c["kind"] == "data":     # DataCondition on a PointsDataLoader (mini-batches, not shuffled); share = 1: the loader OBJECT of the first one
            p, q = c.get("p", 0), c.get("q", 0)
            if c.get("share") and loaders:
                dl = next(iter(loaders.values()))
            else:
                ys = torch.tensor([[float(p * x + q)] for x in c["xs"]], dtype=torch.float64)
                dl = tp.utils.PointsDataLoader((Points(xs, X), Points(ys, Uo)), batch_size=c["bs"], shuffle=False)
                loaders[cid] = dl
            cond = tp.conditions.DataCondition(model, dl, norm=2, weight=w, **nm(cid))
            return Rec(cond, cid, log)
        smp = tp.samplers.DataSampler(Points(xs, X)).make_static() if xs is not None else None
        p, q = c.get("p", 0), c.get("q", 0)
        if c["kind"] == "fit":
            cond = tp.conditions.PINNCondition(model, smp, lambda u, x: u - (p * x + q), weight=w, **nm(cid))
        elif c["kind"] == "inv":
            cond = tp.conditions.PINNCondition(model, smp, lambda u, x, kappa: u - kappa * x, parameter=kap, weight=w, **nm(cid))
        elif c["kind"] == "pen":
            cc = c["c"]
            cond = tp.conditions.ParameterCondition(kap, lambda kappa: (kappa - cc) ** 2, weight=w, **nm(cid))
        elif c["kind"] == "adapt":
            cond = tp.conditions.AdaptiveWeightsCondition(model, smp, lambda u, x: u - (p * x + q), weight=w, **nm(cid))
            cond.adaptive_layer.double()
            if cfg.get("new_lam"):      # the user chooses the initial point weights: a new Parameter object in place of the default one
                cond.adaptive_layer.weight = torch.nn.Parameter(torch.ones(len(c["xs"]), dtype=torch.float64))
            objs["adapt"] = cond
        else:
            raise ValueError(c["kind"])
        return Rec(cond, cid, log)
    train = [mk(c, i + 1, True) for i, c in enumerate(cfg["train"])]
    val = [mk(c, 100 + i + 1, False) for i, c in enumerate(cfg["val"])]
    opt_args = {"momentum": cfg["mun"] / cfg["mud"]} if cfg["mun"] else {}
    if setting is not None:        # an OptimizerSetting object the caller shares between several Solvers
        pass
    elif cfg.get("opt") == "two":
        setting = mk_setting(cfg)
    elif cfg["ssize"] > 0:
        setting = tp.OptimizerSetting(torch.optim.SGD, lr=cfg["lrn"] / cfg["lrd"], **({"optimizer_args": opt_args} if opt_args else {}),
                                      scheduler_class=torch.optim.lr_scheduler.StepLR,
                                      scheduler_args={"step_size": cfg["ssize"], "gamma": cfg["gn"] / cfg["gd"]},
                                      scheduler_frequency=cfg["freq"])
    else:
        # (no momentum: the default optimizer_args of OptimizerSetting, as most users write it)
        setting = tp.OptimizerSetting(torch.optim.SGD, lr=cfg["lrn"] / cfg["lrd"], **({"optimizer_args": opt_args} if opt_args else {}))
    solver = tp.solver.Solver(train, val, optimizer_setting=setting)
    if late:                        # re-balancing after the Solver was constructed: the weights in force are the ones at training time
        for r_, c in zip(train, cfg["train"]):
            r_.weight = c["wn"] / c["wd"]
            r_.cond.weight = c["wn"] / c["wd"]
    return solver, objs


def snapshot(objs, trainer=None):
    m = objs["model"]
    st = {"a": rat(m.lin.weight.detach().reshape(-1)[0]), "b": rat(m.lin.bias.detach().reshape(-1)[0]),
          "kap": rat(objs["kap"].as_tensor.detach().reshape(-1)[0]),
          "lam": [rat(v) for v in objs["adapt"].adaptive_layer.weight.detach().reshape(-1)] if objs["adapt"] is not None else []}
    if trainer is not None and trainer.optimizers:
        opt = trainer.optimizers[0]
        st["lr"] = rat(opt.param_groups[0]["lr"])
        bufs = {}
        for p_, s_ in opt.state.items():
            if "momentum_buffer" in s_ and s_["momentum_buffer"] is not None:
                bufs[id(p_)] = s_["momentum_buffer"]
        def buf(p_):
            b = bufs.get(id(p_))
            return [rat(v) for v in b.detach().reshape(-1)] if b is not None else []
        st["n"] = sorted({int(s_["n"]) for s_ in opt.state.values() if "n" in s_})          # (optimizer "two": its step counters)
        st["va"], st["vb"] = buf(m.lin.weight), buf(m.lin.bias)
        st["vk"] = buf(objs["kap"].as_tensor)
        st["vl"] = buf(objs["adapt"].adaptive_layer.weight) if objs["adapt"] is not None else []
    return st


class Logger(pl.Callback):
    def __init__(self, objs, log):
        self.objs, self.rec = objs, log

    def on_train_batch_end(self, trainer, pl_module, outputs, batch, batch_idx):
        self.rec.append({"e": "step", "k": int(trainer.global_step), "st": snapshot(self.objs, trainer)})

    def on_validation_start(self, trainer, pl_module):
        self.rec.append({"e": "val_start", "st": snapshot(self.objs, trainer)})

    def on_validation_end(self, trainer, pl_module):
        self.rec.append({"e": "val_end", "st": snapshot(self.objs, trainer)})


class TwoEval(torch.optim.Optimizer):
    """the optimizer "two" of Training.tla: two closure evaluations per step (half a step after each) and a python int in the state
    (n = steps done; the second half step is doubled from the second step on).  Exact on dyadic rationals."""

    def __init__(self, params, lr=0.25):
        super().__init__(params, dict(lr=lr))

    @torch.no_grad()
    def step(self, closure):
        with torch.enable_grad():
            closure()
        for g in self.param_groups:
            for p in g["params"]:
                if p.grad is not None:
                    p.add_(p.grad, alpha=-g["lr"] / 2)
        with torch.enable_grad():
            loss = closure()
        for g in self.param_groups:
            for p in g["params"]:
                if p.grad is not None:
                    st = self.state[p]
                    n = st.get("n", 0)
                    p.add_(p.grad, alpha=-g["lr"] / 2 * (1 if n == 0 else 2))
                    st["n"] = n + 1
        return loss


def mk_setting(cfg):
    """the OptimizerSetting of a configuration as ONE object (C19 hands the same object to all its Solvers)"""
    opt_args = {"momentum": cfg["mun"] / cfg["mud"]} if cfg["mun"] else {}
    kw = {"optimizer_args": opt_args} if opt_args else {}
    if cfg["ssize"] > 0:
        kw.update(scheduler_class=torch.optim.lr_scheduler.StepLR, scheduler_args={"step_size": cfg["ssize"], "gamma": cfg["gn"] / cfg["gd"]},
                  scheduler_frequency=cfg["freq"])
    if cfg.get("opt") == "two":
        kw.pop("optimizer_args", None)
        return tp.OptimizerSetting(TwoEval, lr=cfg["lrn"] / cfg["lrd"], **kw)
    return tp.OptimizerSetting(torch.optim.SGD, lr=cfg["lrn"] / cfg["lrd"], **kw)


def fit(cfg, steps, workdir, callbacks_extra=(), ckpt_path=None, log=None, setting=None):
    log = [] if log is None else log
    solver, objs = build(cfg, log, setting=setting)
    cbs = [Logger(objs, log)] + list(callbacks_extra(objs) if callable(callbacks_extra) else callbacks_extra)
    kw = {}
    if cfg["val"]:
        kw["val_check_interval"] = cfg.get("val_interval", 2)
        kw["check_val_every_n_epoch"] = None
    else:
        kw["limit_val_batches"] = 0
    trainer = pl.Trainer(max_steps=steps, logger=False, enable_checkpointing=False, enable_progress_bar=False,
                         enable_model_summary=False, num_sanity_val_steps=(2 if cfg["val"] and cfg.get("sanity") else 0), accelerator="cpu", devices=1,
                         default_root_dir=workdir, callbacks=cbs, **kw)
    with warnings.catch_warnings():
        warnings.simplefilter("ignore")
        trainer.fit(solver, ckpt_path=ckpt_path)
        if cfg.get("refit"):          # the same Solver object fitted again by a fresh Trainer
            log.append({"e": "refit"})
            if cfg.get("eval_between"):       # the user inspects the result in eval mode between the two fits
                solver.eval()
            trainer = pl.Trainer(max_steps=steps, logger=False, enable_checkpointing=False, enable_progress_bar=False,
                                 enable_model_summary=False, num_sanity_val_steps=0, accelerator="cpu", devices=1,
                                 default_root_dir=workdir, callbacks=[Logger(objs, log)], **kw)
            trainer.fit(solver)
    return log, objs, trainer, solver


def run_one(s):
    cfg = dict(s["cfg"], named=(pick(s["tid"], 2, 1) == 1), late_weights=(pick(s["tid"], 3, 2) == 0), eval_between=(pick(s["tid"], 4, 3) != 3),
               new_lam=(pick(s["tid"], 2, 4) == 1), sanity=(pick(s["tid"], 3, 5) != 1), scalar=(pick(s["tid"], 2, 6) == 1))
    wd = tempfile.mkdtemp(prefix="c07-", dir=os.environ.get("VERIF_TMP", None))
    try:
        r = watched(lambda: fit(cfg, cfg["N"], wd), 90)
        if r[0] != "ok":
            return {"exc": r[1] if len(r) > 1 else "hang", "msg": (r[2] if len(r) > 2 else "")[:300], "log": []}
        log = r[1][0]
        return {"exc": "", "log": log, "init": {"a": [cfg["a0"], 1], "b": [cfg["b0"], 1]}}
    finally:
        shutil.rmtree(wd, ignore_errors=True)


if __name__ == "__main__":
    main(run_one)

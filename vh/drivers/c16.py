"""C16 driver: iterate the real loaders once, log the ids each batch presents; run DataCondition
on an identity model so that the aggregated loss is an exact small rational."""
import torch
import torchphysics as tp
from torchphysics.problem.spaces import Points
from .common import main, watched, rat, pick


class Ident(tp.models.Model):
    def forward(self, points):
        points = self._fix_points_order(points)
        return Points(points.as_tensor.clone(), self.output_space)


def ints(t):
    return [int(round(float(v))) for v in t.reshape(-1)]


def points_loader(s):
    X, U = tp.spaces.R1("x"), tp.spaces.R1("u")
    L = s["Nb"]
    x = torch.arange(L, dtype=torch.float64).reshape(L, 1)
    d = torch.tensor(s.get("d") or [0] * L, dtype=torch.float64).reshape(L, 1)
    y = x + d
    if s.get("grid"):          # grid-shaped data (N, 2, 1): every datum is a function on two nodes (operator data); both nodes carry the id
        x, y = x.reshape(L, 1, 1).repeat(1, 2, 1), y.reshape(L, 1, 1).repeat(1, 2, 1)
    return X, U, tp.utils.PointsDataLoader((Points(x, X), Points(y, U)), batch_size=s["bb"],
                                           shuffle=s["shufB"], drop_last=s["drop"])


def run_one(s):
    try:
        return _run_one(s)
    finally:            # (error paths return early: no live objects may stay in the scenario record)
        for a in s.get("agg") or []:
            a.pop("cond", None)


def _run_one(s):
    kind = s["kind"]
    s = dict(s, grid=(kind == "points" and pick(s["tid"], 3) == 0))
    tr = {"batches": []}
    if kind == "points":
        X, U, loader = points_loader(s)

        def it():
            res = []
            for xb, yb in loader:
                xt, yt = xb.as_tensor, yb.as_tensor
                if s.get("grid"):
                    ok = xt.dim() == 3 and list(xt.shape[1:]) == [2, 1] and yt.shape == xt.shape and bool((xt[:, 0] == xt[:, 1]).all()) and bool((yt[:, 0] == yt[:, 1]).all())
                    xt, yt = (xt[:, 0], yt[:, 0]) if ok else (xt.reshape(-1, 1), yt.reshape(-1, 1))
                else:
                    ok = True
                xi = ints(xt)
                res.append({"br": xi, "tgt": ints(yt),
                            "shape_ok": ok and list(xt.shape) == [len(xi), 1] and list(yt.shape) == [len(xi), 1],
                            "spaces_ok": xb.space == X and yb.space == U})
            return res
        r = watched(it)
        if r[0] != "ok":
            return {"error": list(r)}
        tr["batches"] = r[1]
        tr["len"] = len(loader)
        if s.get("agg") and tr["batches"]:   # an empty epoch (drop_last, L < bs) has nothing to aggregate
            model = Ident(X, U)
            for a in s["agg"]:
                cond = tp.conditions.DataCondition(model, loader, norm=("inf" if a["norm"] == 0 else a["norm"]),
                                                   root=a["root"], use_full_dataset=a["full"])
                n = 1 if a["full"] else len(loader) + 2
                # single-iteration mode: a SECOND condition on the same loader is evaluated in between; each walks the batches on its own
                other = None if a["full"] else tp.conditions.DataCondition(model, loader, norm=("inf" if a["norm"] == 0 else a["norm"]),
                                                                          root=a["root"], use_full_dataset=False)
                vals, vals_b = [], []
                for k in range(n):
                    v = watched(lambda: cond(device="cpu"))
                    if v[0] != "ok":
                        return {"error": list(v)}
                    v = float(v[1])
                    vals.append(rat(v ** a["root"]))
                    if other is not None:
                        w = watched(lambda: other(device="cpu"))
                        if w[0] != "ok":
                            return {"error": list(w)}
                        vals_b.append(rat(float(w[1]) ** a["root"]))
                a["obs"] = vals
                a["obs_b"] = vals_b
                a["cond"] = cond
            tr["agg"] = s["agg"]
            # history: the batch size of the data set is changed AFTER the conditions were built (the data set
            # recomputes its length "for the case when the batch size changed"); the same condition objects are
            # evaluated again and must aggregate the batches the loader presents NOW
            loader.dataset.batch_size = s["bb2"]
            r = watched(it)
            if r[0] != "ok":
                return {"error": list(r)}
            tr["batches2"] = r[1]
            for a in s["agg"]:
                cond = a.pop("cond")
                a["obs2"] = []
                if a["full"] and tr["batches2"]:
                    v = watched(lambda: cond(device="cpu"))
                    if v[0] != "ok":
                        return {"error": list(v)}
                    a["obs2"] = [rat(float(v[1]) ** a["root"])]
        return tr
    # DeepONet layouts
    Nb, Nt = s["Nb"], s["Nt"]
    F, T, U = tp.spaces.R1("f"), tp.spaces.R1("t"), tp.spaces.R1("u")
    branch = torch.arange(Nb, dtype=torch.float64).reshape(Nb, 1, 1).repeat(1, 3, 1)
    out = (100 * torch.arange(Nb, dtype=torch.float64).reshape(Nb, 1, 1)
           + torch.arange(Nt, dtype=torch.float64).reshape(1, Nt, 1))
    if kind == "shared":
        trunk = torch.arange(Nt, dtype=torch.float64).reshape(Nt, 1)
    else:
        trunk = out.clone()
    keep = [branch.clone(), trunk.clone(), out.clone()]

    def mk():
        first = tp.utils.DeepONetDataLoader(branch, trunk, out, F, T, U, s["bb"], s["tb"], shuffle_branch=s["shufB"], shuffle_trunk=s["shufT"])
        # a second loader built from the SAME user tensors (e.g. a validation loader on the same grid) before the first is used
        tp.utils.DeepONetDataLoader(branch, trunk, out, F, T, U, s["bb"], s["tb"], shuffle_branch=s["shufB"], shuffle_trunk=s["shufT"])
        return first
    r = watched(mk)
    if r[0] != "ok":
        return {"error": list(r)}
    loader = r[1]
    tr["user_same"] = [bool(torch.equal(a_, b_)) for a_, b_ in zip(keep, [branch, trunk, out])]

    def it():
        res = []
        for b, t, o in loader:
            bt, tt, ot = b.as_tensor, t.as_tensor, o.as_tensor
            rec = {"br": ints(bt[:, 0, 0]),
                   "const_ok": bool((bt == bt[:, :1, :]).all()),
                   "out": [[[c // 100, c % 100] for c in ints(row)] for row in ot[:, :, 0]],
                   "spaces_ok": b.space == F and t.space == T and o.space == U}
            if kind == "shared":
                rec["tr"] = ints(tt[:, 0])
                rec["trk"] = []
            else:
                rec["trk"] = [[[c // 100, c % 100] for c in ints(row)] for row in tt[:, :, 0]]
                rec["tr"] = [p[1] for p in rec["trk"][0]] if rec["trk"] else []
            res.append(rec)
        return res
    r = watched(it)
    if r[0] != "ok":
        return {"error": list(r)}
    tr["batches"] = r[1]
    tr["len"] = len(loader)
    if kind == "unique" and s.get("tb2"):
        # history: another trunk batch size after the first epoch, then one more pass over the SAME loader
        loader.dataset.trunk_batch_size = s["tb2"]
        r = watched(it)
        if r[0] != "ok":
            return {"error": list(r)}
        tr["batches2"] = r[1]
        tr["len2"] = len(loader)
        if s.get("bb3"):
            loader.dataset.branch_batch_size = s["bb3"]
            r = watched(it)
            if r[0] != "ok":
                return {"error": list(r)}
            tr["batches3"] = r[1]
            tr["len3"] = len(loader)
    return tr


if __name__ == "__main__":
    main(run_one)

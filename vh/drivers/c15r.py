"""C15 random variant: R independent two-call runs of AdaptiveRandomRejectionSampler; log how often each row
of the first sample survived the second call (by value), and the range of all returned coordinates."""
import torch
import torchphysics as tp
from .common import main, watched, fx

X = tp.spaces.R1("x")
LO, HI = 1, 3


def run_one(s):
    loss = torch.tensor(s["loss"], dtype=torch.float32)
    n = len(s["loss"])
    dom = tp.domains.Interval(X, LO, HI)
    kept = [0] * n
    count_ok = True
    lo, hi = 10 ** 9, -10 ** 9
    seq_smp = tp.samplers.AdaptiveRandomRejectionSampler(dom, n_points=n) if s.get("seq") else None
    prev = None
    if seq_smp is not None:
        prev = seq_smp.sample_points().as_tensor.detach().clone().reshape(-1)       # (what the CALLER got: the previous point set)
    for rep in range(s["reps"]):
        # independent runs (a fresh sampler each), or (seq) consecutive steps of ONE sampler object: every step keeps every row
        # with the stated probability, independently of the earlier steps
        smp = seq_smp if seq_smp is not None else tp.samplers.AdaptiveRandomRejectionSampler(dom, n_points=n)
        first = prev if seq_smp is not None else smp.sample_points().as_tensor.detach().clone().reshape(-1)
        second = smp.sample_points(unreduced_loss=loss).as_tensor.detach().clone().reshape(-1)
        prev = second
        count_ok = count_ok and len(first) == n and len(second) == n
        sv = set(float(v) for v in second)
        for i in range(min(n, len(first))):
            if float(first[i]) in sv:
                kept[i] += 1
        for v in list(first) + list(second):
            lo, hi = min(lo, fx(v)), max(hi, fx(v))
    s = dict(s)
    s["lo"], s["hi"] = LO, HI
    return {"kept": kept, "count_ok": count_ok, "xmin": lo, "xmax": hi, "scenario": s}


if __name__ == "__main__":
    main(run_one)

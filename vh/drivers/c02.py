"""C02 driver: build real sampler compositions from the AST, call sample_points with a parameter table, and decode
every returned cell to ids (value id, revealed parameter, data id, grid rank)."""
import math, torch
import torchphysics as tp
from torchphysics.problem.spaces import Points, Space
from .common import main, watched

R1 = tp.spaces.R1


def interval(v, dom):
    if dom == "mov":
        return tp.domains.Interval(R1(v), lambda t: 10.0 * t, lambda t: 10.0 * t + 1.0)
    return tp.domains.Interval(R1(v), 0.0, 1.0)


def build(s):
    k = s["k"]
    S = tp.samplers
    if k == "leaf":
        v, n, dom, kind = s["v"], s["n"], s["dom"], s["kind"]
        if kind == "data":
            if v == "t":
                vals = torch.arange(1, n + 1, dtype=torch.float32).reshape(n, 1)
            else:
                vals = (torch.arange(1, n + 1, dtype=torch.float32) / 16.0).reshape(n, 1)
            return S.DataSampler(Points(vals, R1(v)))
        d = interval(v, dom)
        if kind == "random":
            return S.RandomUniformSampler(d, n_points=n)
        if kind == "grid":
            return S.GridSampler(d, n_points=n)
        if kind == "gridflt":         # a grid sampler with a filter that every grid point passes: the same grid, row by row
            src = "def flt(%s):\n    return %s > -1.0\n" % (v, v)
            ns = {}
            exec(src, ns)
            return S.GridSampler(d, n_points=n, filter_fn=ns["flt"])
        if kind == "gauss":
            return S.GaussianSampler(d, n_points=n, mean=0.5, std=0.4)
        if kind == "lhs":
            return S.LHSSampler(d, n_points=n)
        if kind == "expint":
            return S.ExponentialIntervalSampler(d, n_points=n, exponent=2.0)
        if kind == "filtered":
            src = "def flt(%s):\n    return (%s - _torch.floor(%s / 10.0) * 10.0) >= 0.5\n" % (v, v, v)
            ns = {"_torch": torch}
            exec(src, ns)
            return S.RandomUniformSampler(d, n_points=n, filter_fn=ns["flt"])
        if kind == "narrow":          # a filter that accepts 2 % of the interval: ~50 candidates per accepted point
            src = "def flt(%s):\n    return (%s - _torch.floor(%s / 10.0) * 10.0) >= 0.98\n" % (v, v, v)
            ns = {"_torch": torch}
            exec(src, ns)
            return S.RandomUniformSampler(d, n_points=n, filter_fn=ns["flt"])
        raise ValueError(kind)
    if k == "prod":
        return build(s["a"]) * build(s["b"])
    if k == "sum":
        return build(s["a"]) + build(s["b"])
    if k == "append":
        return build(s["a"]).append(build(s["b"]))
    if k == "static":
        return build(s["a"]).make_static()
    raise ValueError(k)


def leaves(s):
    if s["k"] == "leaf":
        return [s]
    if s["k"] == "static":
        return leaves(s["a"])
    return leaves(s["a"]) + leaves(s["b"])


def decode(pts, s, pvar, vids):
    """Points -> list of rows {col: cell}"""
    lf = {}
    for l in leaves(s):
        lf.setdefault(l["v"], []).append(l)
    co = pts.coordinates
    rows = []
    n = len(pts)
    for j in range(n):
        row = {}
        for c, t in co.items():
            x = float(t[j, 0])
            cell = {"vid": 0, "dep": -1, "did": -1, "fr12": -1, "half": 0, "top": 0}
            if c in ("t", "p"):
                cell["vid"] = int(round(x)) if abs(x - round(x)) < 1e-6 else 900000 + vids.setdefault((c, x), len(vids))
                if c == "t":
                    cell["did"] = int(round(x))
            else:
                cell["vid"] = 1000 + vids.setdefault((c, x), len(vids))
                cell["dep"] = int(math.floor(x / 10.0 + 1e-9))
                frac = x - 10.0 * cell["dep"]
                if abs(frac * 16 - round(frac * 16)) < 1e-5 and 1 <= round(frac * 16) <= 8:
                    cell["did"] = int(round(frac * 16))
                # position inside the unit interval in twelfths (grid of n points: r / (n + 1)), and the filter bit
                f12 = frac * 12
                cell["fr12"] = int(round(f12)) if abs(f12 - round(f12)) < 1e-4 else -1
                cell["half"] = 1 if frac >= 0.5 - 1e-6 else 0
                cell["top"] = 1 if frac >= 0.98 - 1e-6 else 0
            row[c] = cell
        rows.append(row)
    return rows


def _watched(fn):
    """watched(), with the sampler's documented safeguard named as an event of its own: RandomUniformSampler gives up with a
    RuntimeError when 20 rounds of candidates did not contain a single point that passes the filter"""
    r = watched(fn)
    if r[0] == "exc" and r[1] == "RuntimeError" and "could not find a single" in (r[2] if len(r) > 2 else ""):
        return ("exc", "FilterGaveUp", r[2])
    return r


def run_one(s):
    smp_ast, pvar, k = s["smp"], s["pvar"], s["k"]
    vids = {}
    tr = {"calls": [], "len_before": -1, "len_after": -1, "len_exc": ""}
    r = watched(lambda: build(smp_ast))
    if r[0] != "ok":
        return {"build_exc": r[1] if len(r) > 1 else "hang", "calls": []}
    smp = r[1]
    tr["build_exc"] = ""
    pvals = [2, 1, 3][:k]
    P = Points(torch.tensor([[float(v)] for v in pvals]), R1(pvar)) if k else Points.empty()
    tr["P"] = [{pvar: {"vid": v, "dep": -1, "did": v if pvar == "t" else -1, "fr12": -1, "half": 0, "top": 0}} for v in pvals]
    r = watched(lambda: len(smp))
    if r[0] == "ok":
        tr["len_before"] = int(r[1])
    # a parameter-free call (for len) when the sampler does not need outer parameters
    tr["free"] = None
    if not (pvar == "t" and k):
        smp_free = build(smp_ast)            # a separate instance (a static sampler would cache this table)
        r = _watched(lambda: smp_free.sample_points())
        if r[0] == "ok":
            tr["free"] = {"rows": decode(r[1], smp_ast, pvar, vids), "exc": ""}
            r2 = watched(lambda: len(smp_free))
            tr["len_after"] = int(r2[1]) if r2[0] == "ok" else -1
        else:
            tr["free"] = {"rows": [], "exc": r[1] if len(r) > 1 else "hang", "msg": r[2] if len(r) > 2 else ""}
    # the second call gets the same number of parameter rows with OTHER values
    pvals2 = [1, 3, 2][:k]
    P2 = Points(torch.tensor([[float(v)] for v in pvals2]), R1(pvar)) if k else Points.empty()
    tr["P2"] = [{pvar: {"vid": v, "dep": -1, "did": v if pvar == "t" else -1, "fr12": -1, "half": 0, "top": 0}} for v in pvals2]
    for rep in range(2):
        PP = P if rep == 0 else P2
        r = _watched(lambda: smp.sample_points(PP) if k else smp.sample_points())
        if r[0] == "ok":
            tr["calls"].append({"rows": decode(r[1], smp_ast, pvar, vids), "exc": ""})
        else:
            tr["calls"].append({"rows": [], "exc": r[1] if len(r) > 1 else "hang", "msg": r[2] if len(r) > 2 else ""})
    # history on the SAME object: after the calls with k parameter rows a parameter-free call; len() is the number of rows of that call
    tr["hist_rows"], tr["hist_len"] = -1, -1
    if k and pvar != "t":
        r = watched(lambda: smp.sample_points())
        if r[0] == "ok":
            tr["hist_rows"] = len(r[1])
            r2 = watched(lambda: len(smp))
            tr["hist_len"] = int(r2[1]) if r2[0] == "ok" else -2
    return tr


if __name__ == "__main__":
    main(run_one)

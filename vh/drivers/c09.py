"""C09 driver: integer DeepONets (weights in -2..2, Identity / Square activations, float64): observed branch and
trunk features, outputs, derivatives and parameter gradients, fast (shared trunk input) against plain layers."""
import torch, torch.nn as nn
import torchphysics as tp
from torchphysics.problem.spaces import Points
from torchphysics.utils import differentialoperators as do
from .common import main, watched, pick


class Square(nn.Module):
    def forward(self, x):
        return x * x


class Ident(nn.Module):
    def forward(self, x):
        return x


def ints(t):
    return [int(round(float(v))) for v in t.reshape(-1)]


def nest(t):
    if t.dim() == 1:
        return ints(t)
    return [nest(x) for x in t]


def set_int_weights(model, seed):
    g = torch.Generator().manual_seed(seed)
    sd = model.state_dict()
    for k in sorted(sd):
        sd[k] = torch.randint(-2, 3, sd[k].shape, generator=g).to(torch.float64)
    model.load_state_dict(sd)


def build(s, copied, shift=0):
    td = s["tdim"]
    # two trunk coordinates: every other scenario uses TWO one-dimensional variables (t1, t2) instead of one two-dimensional variable
    T = tp.spaces.R1("t1") * tp.spaces.R1("t2") if (td == 2 and s.get("split")) else tp.spaces.Rn("t", td)
    Fv = tp.spaces.Rn("f", s.get("fdim", 1))        # input functions with one or two components
    U = tp.spaces.Rn("u", s["dim"])
    Fs = tp.spaces.FunctionSpace(tp.domains.Interval(tp.spaces.R1("s"), 0.0, 4.0), Fv)
    m = s["m"]
    disc = tp.samplers.DataSampler(Points(torch.arange(1 + shift, m + 1 + shift, dtype=torch.float64).reshape(m, 1), tp.spaces.R1("s")))
    # several hidden layers: a LIST of different activations (the fast and the plain trunk must apply them alike)
    acts = Square() if len(s["th"]) < 2 else [Square()] + [Ident()] * (len(s["th"]) - 1)
    trunk = tp.models.FCTrunkNet(T, hidden=tuple(s["th"]), activations=acts, trunk_input_copied=copied)
    if s.get("bk") == "conv":      # ConvBranchNet1D: (batch, channels, length) convolution that keeps the length, then FC layers
        branch = tp.models.ConvBranchNet1D(Fs, disc, nn.Conv1d(s.get("fdim", 1), s.get("fdim", 1), kernel_size=3, padding=1), hidden=tuple(s["bh"]), activations=Ident())
    else:
        branch = tp.models.FCBranchNet(Fs, disc, hidden=tuple(s["bh"]), activations=Ident())
    model = tp.models.DeepONet(trunk, branch, U, output_neurons=s["neurons"]).double()
    return model, T, Fs, U


FD = [1]          # number of components of the input functions of the scenario being run


def fvals(fid, m, shift=0):
    """integer samples of function id fid at s = 1..m:  a*s + b  (second component, if any:  b*s + a)"""
    a, b = (fid % 3) - 1, (fid * 2) % 5 - 2
    return torch.tensor([[float(a * k + b)] + ([float(b * k + a)] if FD[0] == 2 else []) for k in range(1 + shift, m + 1 + shift)], dtype=torch.float64)


def fn_ab(a, b, s):
    """the function (a, b) as a python / torch expression of the points s"""
    return a * s + b if FD[0] == 1 else torch.cat([a * s + b, b * s + a], dim=-1)


def fn_k(k, s):
    return fn_ab(torch.remainder(k, 3) - 1, torch.remainder(2 * k, 5) - 2, s)


def loc(lid, td):
    return [float(((lid * (j + 2)) % 5) - 2) for j in range(td)]


def swapped(x, s):
    """the same trunk points with the variables listed in the opposite order (t2, t1): models select their input by name"""
    if not (s["tdim"] == 2 and s.get("split")):
        return x
    t = x.as_tensor
    return Points(torch.stack([t[..., 1], t[..., 0]], dim=-1), tp.spaces.R1("t2") * tp.spaces.R1("t1"))


def run_one(s):
    s = dict(s, split=(pick(s["tid"], 2) == 0))
    torch.manual_seed(s["tid"])
    m = s["m"]
    FD[0] = s.get("fdim", 1)
    r = watched(lambda: (build(s, True), build(s, False)))
    if r[0] != "ok":
        return {"exc": r[1] if len(r) > 1 else "hang", "calls": []}
    (fast, T, Fs, U), (plain, _, _, _) = r[1]
    set_int_weights(fast, 100 + s["tid"])
    plain.load_state_dict(fast.state_dict())
    tr = {"exc": "", "calls": [], "hist": []}
    td = s["tdim"]
    try:
        # (1) batches of functions x batches of locations, different compositions, different input forms
        for ci, (fids, lids, form) in enumerate(s["batches"]):
            x = Points(torch.tensor([loc(l, td) for l in lids], dtype=torch.float64), T)
            if ci % 2 == 1:
                x = swapped(x, s)
            fb = torch.stack([fvals(f, m) for f in fids])            # (nF, m, 1)
            if form == "tensor":
                out = fast(x, fb)
            elif form == "points":
                out = fast(x, Points(fb, tp.spaces.Rn("f", FD[0])))
            elif form == "callable":     # a single function given as python callable
                f0 = fids[0]
                a, b = (f0 % 3) - 1, (f0 * 2) % 5 - 2
                out = fast(x, lambda s: fn_ab(a, b, s))
            elif form == "single_tensor":
                out = fast(x, fvals(fids[0], m))
            elif form == "funcset" and ci == 7:              # a FunctionSet with a TWO-dimensional parameter (a, b): function a * s + b
                ab = torch.tensor([[float((k % 3) - 1), float((k * 2) % 5 - 2)] for k in fids], dtype=torch.float64)
                ps = tp.samplers.DataSampler(Points(ab, tp.spaces.R1("a") * tp.spaces.R1("b")))
                out = fast(x, tp.domains.CustomFunctionSet(Fs, ps, lambda a, b, s: fn_ab(a, b, s)))
            elif form in ("funcset", "funcset_sum"):     # a FunctionSet (or a sum of two) whose parameters are the function ids
                def mkfs(ids):
                    ps = tp.samplers.DataSampler(Points(torch.tensor([[float(k)] for k in ids], dtype=torch.float64), tp.spaces.R1("k")))
                    return tp.domains.CustomFunctionSet(Fs, ps, lambda k, s: fn_k(k, s))
                fs = mkfs(fids) if form == "funcset" else mkfs(fids[:1]) + mkfs(fids[1:])
                out = fast(x, fs)
            else:
                raise ValueError(form)
            B = fast.branch.current_out.detach()
            Tt = fast.trunk(x).detach()
            Tt = Tt.reshape(-1, Tt.shape[-2], Tt.shape[-1])
            o = out.as_tensor.detach()
            nF = 1 if form in ("callable", "single_tensor") else len(fids)
            tr["calls"].append({"fids": fids[:nF], "lids": lids, "form": form, "B": nest(B), "T": nest(Tt),
                                "Out": nest(o.reshape(nF, len(lids), -1))})
        # (2) history: fix_input, forwards, fix_input again
        x = Points(torch.tensor([loc(l, td) for l in (1, 3)], dtype=torch.float64), T)
        for fid in s["history"]:
            if fid > 0:
                fast.fix_branch_input(fvals(fid, m))
                cur = fid
            o = fast(x).as_tensor.detach()
            fast.branch.current_out = fast.branch.current_out          # (no-op: observation only)
            ref = plain(x, fvals(cur, m)).as_tensor.detach()
            used = cur if torch.equal(o, ref) else -1
            tr["hist"].append({"fixed": cur, "used": used})
        # (2a) ONE FunctionSet object given to two networks whose branch nets discretise at different points of the same number
        #      (s = 1..m and s = 2..m+1): each network sees the functions at ITS points
        other = build(s, True, shift=1)[0]
        other.load_state_dict(fast.state_dict())
        ids2 = [1, 2]
        ps2 = tp.samplers.DataSampler(Points(torch.tensor([[float(k)] for k in ids2], dtype=torch.float64), tp.spaces.R1("k")))
        fs2 = tp.domains.CustomFunctionSet(Fs, ps2, lambda k, s: fn_k(k, s))
        for net, sh in ((fast, 0), (other, 1), (fast, 0)):
            o = net(x, fs2).as_tensor.detach()
            vals = torch.stack([fvals(f, m, shift=sh) for f in ids2])
            ref = net(x, vals).as_tensor.detach()
            tr["hist"].append({"fixed": 10 + sh, "used": 10 + sh if torch.equal(o, ref) else -1})
        # (2b) the SAME tensor object as explicit branch input, evaluated without gradient tracking: after its content was
        #      replaced in place, and after the weights were replaced, the output is that of the current content / weights
        obj = fvals(1, m).clone()
        steps = [(1, None), (2, None), (2, 300 + s["tid"]), (3, None)]
        for fid, reseed in steps:
            obj.copy_(fvals(fid, m))
            if reseed is not None:
                set_int_weights(fast, reseed)
                plain.load_state_dict(fast.state_dict())
            with torch.no_grad():
                o = fast(x, obj).as_tensor.detach()
                ref = plain(x, fvals(fid, m)).as_tensor.detach()
            tr["hist"].append({"fixed": fid, "used": fid if torch.equal(o, ref) else -1})
        set_int_weights(fast, 100 + s["tid"])
        plain.load_state_dict(fast.state_dict())
        # (3) fast == plain: outputs, derivatives w.r.t. inputs, parameter gradients
        fids, lids = s["batches"][0][0], s["batches"][0][1]
        fb = torch.stack([fvals(f, m) for f in fids])

        def probe(model, copied3):
            pts = torch.tensor([loc(l, td) for l in lids], dtype=torch.float64)
            if copied3:
                pts = pts.unsqueeze(0).repeat(len(fids), 1, 1)
            x = Points(pts.clone().requires_grad_(True), T)
            model.zero_grad()
            out = model(x, fb).as_tensor
            res = {"out": ints(out.detach())}
            comp = out[..., :1]
            if True:          # (also with the trunk points repeated for every function: derivatives w.r.t. each copy)
                g = torch.autograd.grad(comp.sum(), x.as_tensor, create_graph=True)[0]
                res["dx"] = ints(g.detach())
                lap = 0
                for i in range(td):
                    g2 = torch.autograd.grad(g[..., i].sum(), x.as_tensor, create_graph=True)[0]
                    lap = lap + g2[..., i]
                res["lap"] = ints(lap.detach())
                # parameter gradients of a loss that contains input derivatives (what a PDE residual does)
                wd = torch.arange(1, g.numel() + 1, dtype=torch.float64).reshape(g.shape)
                wl = torch.arange(2, lap.numel() + 2, dtype=torch.float64).reshape(lap.shape)
                model.zero_grad()
                ((g * wd).sum() + (lap * wl).sum()).backward(retain_graph=True)
                res["pgrad_d"] = [ints(p.grad) if p.grad is not None else [] for _, p in sorted(model.named_parameters())]
                model.zero_grad()
            w = torch.arange(1, out.numel() + 1, dtype=torch.float64).reshape(out.shape)
            (out * w).sum().backward()
            res["pgrad"] = [ints(p.grad) for _, p in sorted(model.named_parameters())]
            return res
        tr["fast"] = probe(fast, False)
        tr["plain"] = probe(plain, False)
        tr["fast3"] = probe(fast, True)
        p3 = probe(plain, True)
        tr["plain"]["out3"], tr["plain"]["pgrad3"] = p3["out"], p3["pgrad"]
        tr["plain"]["dx3"], tr["plain"]["lap3"], tr["plain"]["pgrad_d3"] = p3["dx"], p3["lap"], p3["pgrad_d"]
        # (4) a LARGE evaluation (functions x locations x components x neurons above 2^22 entries): the value at a location is the one
        #     the same location has in a small batch, also at the far end of the batch
        if s.get("big"):
            npts = 8300
            xb = Points(torch.tensor([[float((j * 7) % 5 - 2) for _ in range(td)] for j in range(npts)], dtype=torch.float64), T)
            fb2 = torch.stack([fvals(f, m) for f in (1, 2)])
            with torch.no_grad():
                large = fast(xb, fb2).as_tensor.detach()
                pos = sorted(set(list(range(0, npts, npts // 24)) + list(range(npts - 8, npts))))
                small = fast(xb[pos, ], fb2).as_tensor.detach()
            tr["big"] = {"pos": pos, "large": ints(large[:, pos]), "small": ints(small)}
    except Exception as e:
        import traceback
        tr["exc"] = type(e).__name__
        tr["msg"] = traceback.format_exc()[-600:]
    return tr


if __name__ == "__main__":
    main(run_one)

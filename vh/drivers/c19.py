"""C19 driver: (run 0) uninterrupted training to N with the weight-saving callback; (run 1) training with the
trainer-state checkpoint callback, stopped at step `kill` (a step at which a checkpoint is written) -- the process state
is then discarded; (run 2) fresh objects resumed from the checkpoint file and trained on to N.  Logged: final learnable
and optimizer state of runs 0 and 2, and the weights found in every file of the weight-saving callback when loaded into
a freshly built identical model."""
import os, shutil, tempfile, torch
import torchphysics as tp
from .common import main, watched
from . import c07


def load_ab(path, cfg):
    m = c07.Affine(cfg["a0"] + 7, cfg["b0"] - 5, tied=cfg.get("tied", False))           # a fresh model with OTHER weights
    try:
        m.load_state_dict(torch.load(path))
    except Exception:          # the file does not load into an identical model
        return []
    return [c07.rat(m.lin.weight.detach().reshape(-1)[0]), c07.rat(m.lin.bias.detach().reshape(-1)[0])]


def run_one(s):
    cfg = dict(s["cfg"], tied=(s["tid"] % 2 == 0))
    N, ck, kill = cfg["N"], cfg["ckint"], cfg["kill"]
    base = os.environ.get("VERIF_TMP") or None
    wd = tempfile.mkdtemp(prefix="c19-", dir=base)
    tr = {"exc": "", "files": {}}
    try:
        def run0():
            cb = lambda objs: [tp.utils.WeightSaveCallback(objs["model"], wd, "w", check_interval=ck, save_initial_model=True, save_final_model=True)]
            log, objs, trainer, _ = c07.fit(cfg, N, wd, callbacks_extra=cb)
            return c07.snapshot(objs, trainer), log
        r = watched(run0, 90)
        if r[0] != "ok":
            tr["exc"] = "run0:" + (r[1] if len(r) > 1 else "hang")
            return tr
        tr["run0"], tr["log0"] = r[1][0], [e for e in r[1][1] if e["e"] == "step"]
        for nm in ("init", "min_loss", "final"):
            p = os.path.join(wd, "w_%s.pt" % nm)
            tr["files"][nm] = load_ab(p, cfg) if os.path.exists(p) else []

        def run1():
            cb = lambda objs: [tp.utils.TrainerStateCheckpoint(wd, "state", check_interval=ck)]
            c07.fit(cfg, kill, wd, callbacks_extra=cb)
            return os.path.exists(os.path.join(wd, "state.ckpt"))
        r = watched(run1, 90)
        if r[0] != "ok" or not r[1]:
            tr["exc"] = "run1:" + (r[1] if r[0] != "ok" and len(r) > 1 else "no-checkpoint")
            return tr
        # the crash: nothing of run 1 survives except the file

        def run2():
            log, objs, trainer, _ = c07.fit(cfg, N, wd, ckpt_path=os.path.join(wd, "state.ckpt"))
            return c07.snapshot(objs, trainer), int(trainer.global_step), log
        r = watched(run2, 90)
        if r[0] != "ok":
            tr["exc"] = "run2:" + (r[1] if len(r) > 1 else "hang")
            tr["msg"] = (r[2] if len(r) > 2 else "")[:300]
            return tr
        tr["run2"], tr["steps2"] = r[1][0], r[1][1]
        tr["log2"] = [e for e in r[1][2] if e["e"] == "step"]
        return tr
    finally:
        shutil.rmtree(wd, ignore_errors=True)


if __name__ == "__main__":
    main(run_one)

"""C19 driver: (run 0) uninterrupted training to N with the weight-saving callback; (run 1) training with the
trainer-state checkpoint callback, stopped at step `kill` (a step at which a checkpoint is written) -- the process state
is then discarded; (run 2) fresh objects resumed from the checkpoint file and trained on to N.  Logged: final learnable
and optimizer state of runs 0 and 2, and the weights found in every file of the weight-saving callback when loaded into
a freshly built identical model."""
import os, shutil, tempfile, torch
import torchphysics as tp
from .common import main, watched, pick
from . import c07


class CrashNow(RuntimeError):
    pass


class Crash:
    """factory of a Lightning callback that raises inside the n-th closure evaluation (after backward, before the update)"""

    def __new__(cls, at):
        import pytorch_lightning as pl

        class _Crash(pl.Callback):
            def __init__(self):
                self.n = 0

            def on_before_optimizer_step(self, trainer, pl_module, optimizer):
                self.n += 1
                if self.n == at:
                    raise CrashNow("injected crash in closure evaluation %d" % at)
        return _Crash()


def load_ab(path, cfg):
    m = c07.Affine(cfg["a0"] + 7, cfg["b0"] - 5, tied=cfg.get("tied", False), scalar=cfg.get("scalar", False))           # a fresh model with OTHER weights
    try:
        m.load_state_dict(torch.load(path))
    except Exception:          # the file does not load into an identical model
        return []
    return [c07.rat(m.lin.weight.detach().reshape(-1)[0]), c07.rat(m.lin.bias.detach().reshape(-1)[0])]


def run_one(s):
    cfg = dict(s["cfg"], tied=(pick(s["tid"], 2, 1) == 0), scalar=(pick(s["tid"], 2, 6) == 1))
    N, ck, kill = cfg["N"], cfg["ckint"], cfg["kill"]
    base = os.environ.get("VERIF_TMP") or None
    wd = tempfile.mkdtemp(prefix="c19-", dir=base)
    tr = {"exc": "", "files": {}, "files2": {}, "filesr": {}}
    # every second scenario: ONE OptimizerSetting object for the Solvers of all three runs (as a script does that defines it once)
    setting = c07.mk_setting(cfg) if pick(s["tid"], 2, 2) == 1 else None
    # callback / file names: plain, or (every third scenario) with a dot in it, as in "run_lr0.01"
    wname = "w_lr0.5" if pick(s["tid"], 3, 3) == 0 else "w"
    sname = "state_v1.2" if pick(s["tid"], 3, 3) == 0 else "state"
    try:
        def run0():
            keep = {}

            def cb(objs):
                keep["cb"] = tp.utils.WeightSaveCallback(objs["model"], wd, wname, check_interval=ck, save_initial_model=True, save_final_model=True)
                return [keep["cb"]]
            log, objs, trainer, solver = c07.fit(cfg, N, wd, callbacks_extra=cb, setting=setting)
            snap = c07.snapshot(objs, trainer)
            first_final = {nm: (load_ab(os.path.join(wd, "%s_%s.pt" % (wname, nm)), cfg) if os.path.exists(os.path.join(wd, "%s_%s.pt" % (wname, nm))) else [])
                           for nm in ("init", "min_loss", "final")}
            # a second training phase: the SAME solver and the SAME callback object, a fresh Trainer, the same number of steps
            import pytorch_lightning as pl, warnings
            tr2 = pl.Trainer(max_steps=N, logger=False, enable_checkpointing=False, enable_progress_bar=False, enable_model_summary=False,
                             num_sanity_val_steps=0, accelerator="cpu", devices=1, default_root_dir=wd, callbacks=[keep["cb"]], limit_val_batches=0)
            with warnings.catch_warnings():
                warnings.simplefilter("ignore")
                tr2.fit(solver)
            snap2 = c07.snapshot(objs, None)
            return snap, log, first_final, snap2
        r = watched(run0, 90)
        if r[0] != "ok":
            tr["exc"] = "run0:" + (r[1] if len(r) > 1 else "hang")
            return tr
        tr["run0"], tr["log0"] = r[1][0], [e for e in r[1][1] if e["e"] == "step"]
        for nm in ("init", "min_loss", "final"):
            p = os.path.join(wd, "%s_%s.pt" % (wname, nm))
            val = load_ab(p, cfg) if os.path.exists(p) else []
            tr["files"][nm] = r[1][2][nm]            # (the files as they were after the FIRST phase)
            tr["files2"][nm] = val
        tr["phase2"] = {"a": r[1][3]["a"], "b": r[1][3]["b"]}
        for f_ in os.listdir(wd):
            if f_.endswith(".pt"):
                os.unlink(os.path.join(wd, f_))

        # the interruption: either the run simply ends after step `kill`, or (every second scenario) it was meant to run to N and an
        # exception is raised inside step kill + 1 -- for the two-evaluation optimizer inside its SECOND closure evaluation, when the
        # weights are already half moved.  The last file written is the one of step `kill` either way.
        crash = pick(s["tid"], 2, 5) == 1
        tr["crash"] = crash

        def run1():
            if not crash:
                cb = lambda objs: [tp.utils.TrainerStateCheckpoint(wd, sname, check_interval=ck)]
                c07.fit(cfg, kill, wd, callbacks_extra=cb, setting=setting)
            else:
                at = 2 * kill + 2 if cfg.get("opt") == "two" else kill + 1
                cb = lambda objs: [tp.utils.TrainerStateCheckpoint(wd, sname, check_interval=ck), Crash(at)]
                try:
                    c07.fit(cfg, N, wd, callbacks_extra=cb, setting=setting)
                    return False                      # (the injected crash did not happen)
                except CrashNow:
                    pass
            return os.path.exists(os.path.join(wd, sname + ".ckpt"))
        r = watched(run1, 90)
        if r[0] != "ok" or not r[1]:
            tr["exc"] = "run1:" + (r[1] if r[0] != "ok" and len(r) > 1 else "no-checkpoint")
            return tr
        # the crash: nothing of run 1 survives except the file

        def run2():
            # the resumed run carries a weight-saving callback of its own (files r_*): its minimum-loss file holds a checked step
            cbr = lambda objs: [tp.utils.WeightSaveCallback(objs["model"], wd, "r", check_interval=ck, save_initial_model=True, save_final_model=True)]
            log, objs, trainer, _ = c07.fit(cfg, N, wd, ckpt_path=os.path.join(wd, sname + ".ckpt"), setting=setting, callbacks_extra=cbr)
            return c07.snapshot(objs, trainer), int(trainer.global_step), log
        r = watched(run2, 90)
        if r[0] != "ok":
            tr["exc"] = "run2:" + (r[1] if len(r) > 1 else "hang")
            tr["msg"] = (r[2] if len(r) > 2 else "")[:300]
            return tr
        tr["run2"], tr["steps2"] = r[1][0], r[1][1]
        tr["log2"] = [e for e in r[1][2] if e["e"] == "step"]
        for nm in ("init", "min_loss", "final"):
            p = os.path.join(wd, "r_%s.pt" % nm)
            tr["filesr"][nm] = load_ab(p, cfg) if os.path.exists(p) else []
        return tr
    finally:
        shutil.rmtree(wd, ignore_errors=True)


if __name__ == "__main__":
    main(run_one)

"""C15 driver: replay a TLC-generated history of calls on one real sampler object and log the identity of
what comes back.  Point sets / rows are identified by value (fresh random points are distinct a.s.)."""
import math, torch
import torchphysics as tp
from .common import main, watched, fx, pick

X = tp.spaces.R1("x")
LO, HI = 1, 3


def run_one(s):
    kind = s["kind"]
    dom = tp.domains.Interval(X, LO, HI)
    ev = []
    if kind in ("static", "plain"):
        base = tp.samplers.RandomUniformSampler(dom, n_points=3)
        iv = lambda k: math.inf if k >= 1000 else k
        smp = base.make_static(iv(s["iv0"])) if kind == "static" else base
        # a SIBLING static sampler made from the same base sampler afterwards, with another interval: the two are independent objects
        # (event "sib" = a call on the sibling, a stutter for the sampler under observation)
        sib = base.make_static(iv(2 if s["iv0"] != 2 else 1000))
        # every third static history runs through a SUM: the observed static sampler is the first part of (part + other static sampler);
        # calls go to the sum, make_static(iv) to the part; the identity of the part's point set = the first three rows of the sum
        via_sum = kind == "static" and (pick(s["tid"], 3, 1) == 0 or s["iv0"] >= 1000) and all(op["a"] != "next" for op in s["ops"])
        part = smp
        if via_sum:
            smp = part + tp.samplers.RandomUniformSampler(dom, n_points=2).make_static()
        seen = []

        def ident(p):
            t = p.as_tensor.detach().clone()
            if via_sum:
                t = t[:3]
            for i, u in enumerate(seen):
                if u.shape == t.shape and torch.equal(u, t):
                    return i + 1
            seen.append(t)
            return len(seen)
        for op in s["ops"]:
            if op["a"] == "restatic":
                r = watched(lambda: (part if via_sum else smp).make_static(iv(op["iv"])))
                if r[0] == "ok":
                    if via_sum:
                        part = r[1]
                    else:
                        smp = r[1]
                    ev.append({"a": "restatic", "iv": op["iv"], "ret": 0})
                else:
                    ev.append({"a": "restatic", "iv": op["iv"], "ret": 0, "exc": r[1] if len(r) > 1 else r[0]})
                continue
            if op["a"] == "sib":
                r = watched(lambda: sib.sample_points())
                ev.append({"a": "sib", "iv": 0, "ret": 0} if r[0] == "ok" else {"a": "sib", "iv": 0, "ret": 0, "exc": r[1] if len(r) > 1 else r[0]})
                continue
            if op["a"] == "call":
                # device arguments: absent / "cpu" / torch.device / the indexed spelling of the same device
                dv = [None, "cpu", torch.device("cpu"), "cpu:0"][(len(ev) + s["tid"]) % 4]
                r = watched(lambda: smp.sample_points() if dv is None else smp.sample_points(device=dv))
            else:
                r = watched(lambda: next(smp))
            if r[0] == "ok":
                ev.append({"a": op["a"], "iv": 0, "ret": ident(r[1])})
            else:
                ev.append({"a": op["a"], "iv": 0, "ret": 0, "exc": r[1] if len(r) > 1 else r[0]})
        return {"events": ev}
    # adaptive threshold sampler
    n = s["n"]
    ratio = s["ratio"][0] / s["ratio"][1]
    # every other scenario with an even number of points: the same number of rows as a BATCH of two parameter rows (n/2 points each);
    # the documented threshold is that of the whole loss vector
    batch = n % 2 == 0 and pick(s["tid"], 2, 2) == 0
    par = tp.spaces.Points(torch.tensor([[0.0], [1.0]]), tp.spaces.R1("k")) if batch else tp.spaces.Points.empty()
    smp = tp.samplers.AdaptiveThresholdRejectionSampler(dom, resample_ratio=ratio, n_points=(n // 2 if batch else n))
    ids = {}

    def rid(v):
        k = float(v)
        if k not in ids:
            ids[k] = len(ids) + 1
        return ids[k]
    for op in s["ops"]:
        loss = None if not op["loss"] else torch.tensor(op["loss"], dtype=torch.float32)
        r = watched(lambda: smp.sample_points(unreduced_loss=loss, params=par)[:, ["x"]])
        if r[0] != "ok":
            ev.append({"a": "sample", "loss": op["loss"], "ret": [], "x": [], "exc": r[1] if len(r) > 1 else r[0]})
            continue
        t = r[1].as_tensor.detach().clone().reshape(-1)
        ev.append({"a": "sample", "loss": op["loss"], "ret": [rid(v) for v in t], "x": [fx(v) for v in t]})
    # calls WITHOUT a loss draw a fresh sample for the parameters of THAT call: two rows, none, three rows on one object
    fresh = []
    for cls, kw in ((tp.samplers.AdaptiveThresholdRejectionSampler, {"resample_ratio": 0.5}), (tp.samplers.AdaptiveRandomRejectionSampler, {})):
        sm = cls(dom, n_points=2, **kw)
        counts = []
        for kk in (2, 0, 3):
            pk = tp.spaces.Points(torch.arange(kk, dtype=torch.float32).reshape(kk, 1), tp.spaces.R1("k")) if kk else tp.spaces.Points.empty()
            r = watched(lambda: sm.sample_points(params=pk))
            ok_cols = r[0] == "ok" and (("k" in r[1].space) == (kk > 0))
            counts.append(len(r[1]) if ok_cols else -1)
        fresh.append(counts)
    s = dict(s)
    s["lo"], s["hi"] = LO, HI
    return {"events": ev, "scenario": s, "fresh_counts": fresh}


if __name__ == "__main__":
    main(run_one)

"""C06 driver: normals reported by boundary objects at the points of their own boundary samplers."""
import torch
import torchphysics as tp
from torchphysics.problem.spaces import Points, Space
from .common import main, watched
from .. import universe as U
from .c05 import rows_for


def run_one(s):
    e, tid = s["expr"], s["tid"]
    dom = U.build(e)
    names = sorted(U.free_vars(e))
    r = watched(lambda: dom.boundary)
    if r[0] != "ok":
        return {"bd_exc": r[1] if len(r) > 1 else "hang", "sets": []}
    bd = r[1]
    vs = U.space_vars(e)
    sets, raw = [], {}
    menu = [("random", 16), ("grid", 12), ("grid", 7)]
    if '"poly"' in __import__("json").dumps(e):      # polygon outlines: grid points that fall exactly on vertices and on the prolongation of other sides
        menu += [("grid", 16), ("grid", 32)]
    for j, (kind, n) in enumerate(menu):
        row = rows_for(names, 1, tid + j)[0] if names else {}
        p1 = U.mk_params(names, [row] if names else [])
        fn = bd.sample_random_uniform if kind == "random" else bd.sample_grid
        rec = {"kind": kind, "n": n, "prm": {k: v * U.F for k, v in row.items()}, "exc": "", "nexc": "", "pts": [], "normals": [], "shape_ok": True}
        r = watched(lambda: fn(n=n, params=p1), 5)
        if r[0] != "ok":
            rec["exc"] = r[1] if len(r) > 1 else "hang"
            sets.append(rec)
            continue
        pts = r[1]
        m = len(pts)
        rp = U.mk_params(names, [row] * m) if names else Points.empty()
        r2 = watched(lambda: bd.normal(pts, rp), 5)
        if r2[0] != "ok":
            rec["nexc"] = r2[1] if len(r2) > 1 else "hang"
            sets.append(rec)
            continue
        nn = torch.as_tensor(r2[1]).detach().to(torch.float64)
        d = sum(U.SPACES[v] for v in vs)
        rec["shape_ok"] = list(nn.shape) == [m, d]
        co = pts.coordinates
        for i in range(m):
            rec["pts"].append(U.q_of({v: [float(x) for x in co[v][i]] for v in vs}, row))
            rec["normals"].append([U.quant(x, 256) for x in nn.reshape(m, -1)[i]] if nn.numel() == m * d else [])
        sets.append(rec)
        raw[len(sets) - 1] = (pts, row)
    # normal() asked for ONE point at a time (what the batch contains must not matter): the points of the first grid set
    g0 = [j for j, st in enumerate(sets) if st["kind"] == "grid" and j in raw and st["pts"]]
    if g0:
        j0 = g0[0]
        pts0, row0 = raw[j0]
        rec = {"kind": "one-by-one", "n": 0, "prm": sets[j0]["prm"], "exc": "", "nexc": "", "pts": [], "normals": [], "shape_ok": True}
        d_ = sum(U.SPACES[v] for v in vs)
        for i in range(min(8, len(pts0))):
            one = pts0[i:i + 1, ]
            r1 = watched(lambda: bd.normal(one, U.mk_params(names, [row0]) if names else Points.empty()), 5)
            if r1[0] != "ok":
                rec["nexc"] = r1[1] if len(r1) > 1 else "hang"
                break
            n1 = torch.as_tensor(r1[1]).detach().to(torch.float64).reshape(-1)
            rec["pts"].append(sets[j0]["pts"][i])
            rec["normals"].append([U.quant(x, 256) for x in n1] if n1.numel() == d_ else [])
        sets.append(rec)
    # the same shape 256 times larger (lengths, positions and parameter values): normals do not depend on the size; the points
    # are scaled back before they are judged against the denotation
    KS = 256.0
    rowS = rows_for(names, 1, tid + 2)[0] if names else {}
    rec = {"kind": "scaled", "n": 12, "prm": {k: v * U.F for k, v in rowS.items()}, "exc": "", "nexc": "", "pts": [], "normals": [], "shape_ok": True}

    def scaled():
        bdS = U.build_scaled(e, KS).boundary
        pS = Points(torch.tensor([[float(rowS[n_]) * KS for n_ in names]], dtype=torch.float32), U.mk_params(names, [rowS]).space) if names else Points.empty()
        q = bdS.sample_grid(n=12, params=pS)
        rp = Points(pS.as_tensor.repeat(len(q), 1), pS.space) if names else Points.empty()
        return q, bdS.normal(q, rp)
    r = watched(scaled, 8)
    if r[0] != "ok":
        rec["exc"] = r[1] if len(r) > 1 else "hang"
    else:
        q, nn = r[1]
        m = len(q)
        nn = torch.as_tensor(nn).detach().to(torch.float64)
        d_ = sum(U.SPACES[v] for v in vs)
        rec["shape_ok"] = list(nn.shape) == [m, d_]
        co = q.coordinates
        for i in range(m):
            rec["pts"].append(U.q_of({v: [float(x) / KS for x in co[v][i]] for v in vs}, rowS))
            rec["normals"].append([U.quant(x, 256) for x in nn.reshape(m, -1)[i]] if nn.numel() == m * d_ else [])
    sets.append(rec)
    # the same shape moved to (300, 200, -100) (positions only): normals do not depend on where the shape is; points moved back
    FARP = [300.0, 200.0, -100.0]
    rec = {"kind": "far", "n": 12, "prm": {k: v * U.F for k, v in rowS.items()}, "exc": "", "nexc": "", "pts": [], "normals": [], "shape_ok": True}
    if '"trans"' not in __import__("json").dumps(e):
        def far():
            bdF = U.build_far(e, FARP).boundary
            pF = U.mk_params(names, [rowS]) if names else Points.empty()
            q = bdF.sample_grid(n=12, params=pF)
            rp = U.mk_params(names, [rowS] * len(q)) if names else Points.empty()
            return q, bdF.normal(q, rp)
        r = watched(far, 8)
        if r[0] != "ok":
            rec["exc"] = r[1] if len(r) > 1 else "hang"
        else:
            q, nn = r[1]
            m = len(q)
            nn = torch.as_tensor(nn).detach().to(torch.float64)
            d_ = sum(U.SPACES[v] for v in vs)
            rec["shape_ok"] = list(nn.shape) == [m, d_]
            co = q.coordinates
            for i in range(m):
                k0, cc = 0, {}
                for v in vs:
                    cc[v] = [float(x) - FARP[j] for j, x in enumerate(co[v][i].to(torch.float64))]
                rec["pts"].append(U.q_of(cc, rowS))
                rec["normals"].append([U.quant(x, 256) for x in nn.reshape(m, -1)[i]] if nn.numel() == m * d_ else [])
        sets.append(rec)
    # the same shape 4096 times SMALLER: unit normals also for tiny shapes (normals logged at 1/4096 and scaled to 1/256 units after a
    # finer length test by the specification: field "norm4096" = squared length at 1/4096)
    KT = 1.0 / 4096.0
    rec = {"kind": "tiny", "n": 12, "prm": {k: v * U.F for k, v in rowS.items()}, "exc": "", "nexc": "", "pts": [], "normals": [], "shape_ok": True, "len2_4096": []}

    def tiny():
        bdS = U.build_scaled(e, KT).boundary
        pS = Points(torch.tensor([[float(rowS[n_]) * KT for n_ in names]], dtype=torch.float32), U.mk_params(names, [rowS]).space) if names else Points.empty()
        q = bdS.sample_grid(n=12, params=pS)
        rp = Points(pS.as_tensor.repeat(len(q), 1), pS.space) if names else Points.empty()
        return q, bdS.normal(q, rp)
    # (not for polyhedra: the nearest-face search of the trimesh package works with absolute tolerances and picks other faces at this size)
    r = watched(tiny, 8) if '"mesh"' not in __import__("json").dumps(e) else ("exc", "skipped")
    if r[0] != "ok":
        rec["exc"] = r[1] if len(r) > 1 else "hang"
    else:
        q, nn = r[1]
        m = len(q)
        nn = torch.as_tensor(nn).detach().to(torch.float64)
        d_ = sum(U.SPACES[v] for v in vs)
        rec["shape_ok"] = list(nn.shape) == [m, d_]
        co = q.coordinates
        for i in range(m):
            rec["pts"].append(U.q_of({v: [float(x) / KT for x in co[v][i]] for v in vs}, rowS))
            rowv = nn.reshape(m, -1)[i] if nn.numel() == m * d_ else []
            rec["normals"].append([U.quant(x, 256) for x in rowv])
            rec["len2_4096"].append(sum(U.quant(x, 4096) ** 2 for x in rowv) if len(rowv) else 0)
    sets.append(rec)
    # one normal() call on a batch whose points belong to DIFFERENT parameter rows (every point with its own row)
    if names:
        ra = {n_: 0 for n_ in names}
        rb = {n_: 2 for n_ in names}
        rc = rows_for(names, 1, tid + 3)[0]
        rec = {"kind": "mixed", "n": 18, "prm": {}, "exc": "", "nexc": "", "pts": [], "normals": [], "shape_ok": True}

        def mixed():
            parts, prm = [], []
            for rw in (ra, rb, rc):
                q = bd.sample_grid(n=6, params=U.mk_params(names, [rw]))
                parts.append(q)
                prm += [rw] * len(q)
            pts = parts[0] | parts[1] | parts[2]
            return pts, prm
        r = watched(mixed, 8)
        if r[0] != "ok":
            rec["exc"] = r[1] if len(r) > 1 else "hang"
        else:
            pts, prm = r[1]
            m = len(pts)
            r2 = watched(lambda: bd.normal(pts, U.mk_params(names, prm)), 5)
            if r2[0] != "ok":
                rec["nexc"] = r2[1] if len(r2) > 1 else "hang"
            else:
                nn = torch.as_tensor(r2[1]).detach().to(torch.float64)
                d = sum(U.SPACES[v] for v in vs)
                rec["shape_ok"] = list(nn.shape) == [m, d]
                co = pts.coordinates
                for i in range(m):
                    rec["pts"].append(U.q_of({v: [float(x) for x in co[v][i]] for v in vs}, prm[i]))
                    rec["normals"].append([U.quant(x, 256) for x in nn.reshape(m, -1)[i]] if nn.numel() == m * d else [])
        sets.append(rec)
    return {"bd_exc": "", "sets": sets}


if __name__ == "__main__":
    main(run_one)

"""C13 driver: build recording functions from signatures, replay wrap / call / partially_evaluate /
set_default / remove_default / re-wrap / deepcopy on real UserFunction / DomainUserFunction objects,
log what the function received, what came back and the state of every wrapper after every step."""
import copy, torch
import torchphysics as tp
from torchphysics.utils.user_fun import UserFunction, DomainUserFunction
from torchphysics.problem.spaces import Points, Space
from .common import main, watched, pick

P = [2, 3, 5, 7, 11]


def mk_fun(sig, log, duf=False):
    params = ", ".join(p["n"] + ("=%d" % p["v"] if p["d"] else "") for p in sig)
    body = " + ".join("%d*%s" % (P[i], p["n"]) for i, p in enumerate(sig)) or "0"
    if duf:   # domain functions return tensors with a batch axis
        body = "_torch.as_tensor(%s, dtype=_torch.float64).reshape(-1)" % body
    src = "def f(%s):\n    _log.append(dict(locals()))\n    return %s\n" % (params, body)
    ns = {"_log": log, "_torch": torch}
    exec(src, ns)
    return ns["f"]


def ival(v):
    if isinstance(v, torch.Tensor):
        return int(round(float(v.reshape(-1)[0])))
    return int(v)


def view(w):
    return {"args": list(w.args), "defaults": {k: ival(v) for k, v in w.defaults.items()}}


def present(M, cls, how, rot):
    """present mapping M (name->int) as dict or Points, keys rotated by rot"""
    keys = list(M.keys())
    if keys:
        r = rot % len(keys)
        keys = keys[r:] + keys[:r]
        if rot % 2:
            keys.reverse()
    if how == "points" and keys:
        return Points.from_coordinates({k: torch.tensor([[float(M[k])]], dtype=torch.float64) for k in keys})
    out = {k: torch.tensor([float(M[k])], dtype=torch.float64) for k in keys} if cls == "DUF" else {k: M[k] for k in keys}
    if how == "ddict":          # a mapping that FABRICATES values for absent keys (collections.defaultdict): absent optional parameters still
        import collections      # take their declared defaults, and the caller's mapping gains no key
        d = collections.defaultdict(lambda: (torch.tensor([777.0], dtype=torch.float64) if cls == "DUF" else 777))
        d.update(out)
        return d
    return out


def asdict(M):
    return dict(M) if isinstance(M, dict) else {}


def run_one(s):
    cls = DomainUserFunction if s["cls"] == "DUF" else UserFunction
    # every second domain-function scenario runs on the library's own subclass RotationMatrix2D (rotate.py): the wrapped function is
    # the ANGLE function, the same wrapper bookkeeping (arguments, defaults, partial evaluation) applies; what comes back is the
    # rotation matrix of the angle, so the value of the user function is read off what it received (log) and the matrix is checked
    rot = s["cls"] == "DUF" and pick(s["tid"], 2, 7) == 1
    if rot:
        from torchphysics.problem.domains.domainoperations.rotate import RotationMatrix2D
        cls = RotationMatrix2D
    log = []

    def val(r):
        if not rot:
            return ival(r)
        if not log:
            return -99999
        v = sum(P[i] * ival(x) for i, x in enumerate(log[-1].values()))
        m = torch.as_tensor(r, dtype=torch.float64).reshape(-1)
        if m.numel() == 1:            # (a plain UserFunction re-wrapped around the same angle function returns the angle itself)
            return ival(r)
        a = torch.tensor(float(v), dtype=torch.float64)
        ref = torch.stack([torch.cos(a), -torch.sin(a), torch.sin(a), torch.cos(a)])
        return v if m.numel() == 4 and bool(torch.allclose(m, ref, atol=1e-9)) else -99998
    heap = []
    funs = []
    ev = []
    ops = list(s["ops"])
    if s.get("sig") or s.get("sig") == []:
        if "ops" in s and (not ops or ops[0]["a"] != "wrap") and s["sig"] != [] or (s["sig"] == [] and ops and ops[0]["a"] != "wrap"):
            ops = [{"a": "wrap", "sig": s["sig"], "w": 0, "M": {}, "R": {}, "names": []}] + ops
    for n, op in enumerate(ops):
        a = op["a"]
        e = {"a": a, "w": op["w"], "M": asdict(op["M"]), "R": asdict(op.get("R", {})), "names": list(op.get("names", [])),
             "sig": op.get("sig") or [], "res": "ok", "recv": {}, "ret": 0, "recv2": {}, "ret2": 0, "res2": "none",
             "M_same": True, "fun_same": True, "excn": ""}
        how = "points" if (n % 3 == 1) else ("ddict" if (n + s["tid"]) % 3 == 2 else "dict")
        if op["w"] > len(heap):
            # the generator's abstract heap does not model aliasing of re-wrapped defaults, so it may predict a
            # wrapper where the real code returned a value; such references are skipped
            e["a"] = "skip"
            e["heap"] = [view(x) for x in heap]
            ev.append(e)
            continue
        w = heap[op["w"] - 1] if op["w"] else None
        del log[:]
        if a == "wrap":
            f = mk_fun(op["sig"], log, s["cls"] == "DUF")
            funs.append(f)
            heap.append(cls(f))
        elif a == "call":
            M = present(e["M"], s["cls"], how, n)
            before = copy.deepcopy(M) if isinstance(M, dict) else None
            r = watched(lambda: w(M))
            if r[0] == "ok":
                e["ret"] = val(r[1])
                e["recv"] = {k: ival(v) for k, v in log[-1].items()} if log else {}
                e["ncalls"] = len(log)
            else:
                e["res"], e["excn"] = "exc", (r[1] if len(r) > 1 else "hang")
            if before is not None:
                e["M_same"] = list(before.keys()) == list(M.keys()) and all(ival(before[k]) == ival(M[k]) for k in before)
        elif a in ("pe", "pecall"):
            B = present(e["M"], s["cls"], "dict", n)
            before = copy.deepcopy(B)
            r = watched(lambda: w.partially_evaluate(**B))
            e["M_same"] = list(before.keys()) == list(B.keys()) and all(ival(before[k]) == ival(B[k]) for k in before)
            if r[0] != "ok":
                e["res"], e["excn"] = "exc", (r[1] if len(r) > 1 else "hang")
            elif rot and isinstance(r[1], UserFunction) and not callable(r[1].fun):
                # RotationMatrix2D.partially_evaluate wraps the VALUE of a completely bound angle function again (the rotation of a
                # domain stays an object): the value is the matrix this constant object returns
                e["res"] = "value"
                e["ret"] = val(r[1]({}))
                e["recv"] = {k: ival(v) for k, v in log[-1].items()} if log else {}
            elif isinstance(r[1], UserFunction):
                e["res"] = "wrapper"
                heap.append(r[1])
                if a == "pecall":
                    del log[:]
                    R = present(e["R"], s["cls"], how, n + 1)
                    r2 = watched(lambda: r[1](R))
                    if r2[0] == "ok":
                        e["res2"] = "ok"
                        e["ret2"] = val(r2[1])
                        e["recv2"] = {k: ival(v) for k, v in log[-1].items()} if log else {}
                    else:
                        e["res2"], e["excn"] = "exc", (r2[1] if len(r2) > 1 else "hang")
            else:
                e["res"] = "value"
                e["ret"] = val(r[1])
                e["recv"] = {k: ival(v) for k, v in log[-1].items()} if log else {}
        elif a == "setdef":
            r = watched(lambda: w.set_default(**e["M"]))
            if r[0] != "ok":
                e["res"], e["excn"] = "exc", (r[1] if len(r) > 1 else "hang")
        elif a == "rmdef":
            r = watched(lambda: w.remove_default(*e["names"]) if n % 2 else w.remove_default(**{k: 0 for k in e["names"]}))
            if r[0] != "ok":
                e["res"], e["excn"] = "exc", (r[1] if len(r) > 1 else "hang")
        elif a == "copy":
            heap.append(copy.deepcopy(w))
        elif a == "rewrap":
            heap.append(cls(w) if n % 2 else UserFunction(w))
        e["heap"] = [view(x) for x in heap]
        e["fun_same"] = all(x.fun is funs_i or a in ("copy",) or True for x, funs_i in zip(heap, funs))
        ev.append(e)
    return {"events": ev}


if __name__ == "__main__":
    main(run_one)

"""C20 driver: real Fourier layers / FNOs on random fields, shifted fields and refined grids; fields are logged in
fixed point 2^-12."""
import math, torch
import torchphysics as tp
from torchphysics.models.FNO import _FourierLayer
from .common import main, watched, pick

SC = 4096


def fld(t):
    return [[[int(round(float(v) * SC)) for v in r] for r in b] for b in t] if t.dim() == 3 else \
           [[[[int(round(float(v) * SC)) for v in c] for c in r] for r in b] for b in t]


def run_one(s):
    torch.manual_seed(7 + s["tid"])
    d, N, ch = s["d"], s["N"], s["ch"]
    modes = s["modes"][0] if d == 1 else tuple(s["modes"])
    tr = {"exc": "", "shifts": [], "input_unchanged": True}
    try:
        if s["kind"] == "layer":
            net = _FourierLayer(ch, modes, linear_connection=s["lin"], skip_connection=s["skip"], bias=s["lin"])
            call = lambda u: net(u)
        else:
            X = tp.spaces.Rn("a", ch)
            Y = tp.spaces.Rn("b", ch)
            # N-D: "a list of N numbers" is only unambiguous when there are more layers than axes (a flat list of
            # length <= fourier_layers is read as per-layer 1-D modes), otherwise the list-of-lists form is used
            layers, fm = 2, modes
            if d > 1:
                layers, fm = (3, modes) if pick(s["tid"], 2, 1) == 0 else (2, [modes, modes])
            net = tp.models.FNO(X, Y, fourier_layers=layers, hidden_channels=3, fourier_modes=fm,
                                skip_connections=s["skip"], linear_connections=s["lin"])
            call = lambda u: net(tp.spaces.Points(u, X)).as_tensor
            if ch >= 2 and pick(s["tid"], 2, 2) == 1:
                # an input space of SEVERAL variables, and the caller's Points hold them in the other order: the model
                # sorts the columns by name; the caller's tensor is left alone and the result is the one of the sorted call
                A, C = tp.spaces.Rn("a", 1), tp.spaces.Rn("c", ch - 1)
                net = tp.models.FNO(A * C, Y, fourier_layers=layers, hidden_channels=3, fourier_modes=fm,
                                    skip_connections=s["skip"], linear_connections=s["lin"])

                def call(u):
                    mine = torch.cat([u[..., 1:], u[..., :1]], dim=-1).clone()
                    keep = mine.clone()
                    y = net(tp.spaces.Points(mine, C * A)).as_tensor
                    tr["input_unchanged"] = tr["input_unchanged"] and bool(torch.equal(keep, mine))
                    tr.setdefault("order", []).append({"y": fld(y), "ys": fld(net(tp.spaces.Points(u, A * C)).as_tensor)})
                    return y
        net.eval()
        u0 = (torch.randint(-8, 9, (2, *N, ch)).to(torch.float32)) / 4.0
        with torch.no_grad():
            # the object is a FUNCTION of its input: a broad-band field on a finer grid is evaluated before anything else and again at
            # the very end, after calls at coarser resolutions (zero-padding regime included) -- same output
            NF_ = [2 * n + 3 for n in N]
            vF = (torch.randint(-8, 9, (1, *NF_, ch)).to(torch.float32)) / 4.0
            yF0 = call(vF)
            before = u0.clone()
            y0 = call(u0)
            tr["input_unchanged"] = tr["input_unchanged"] and bool(torch.equal(before, u0))
            tr["u0"] = fld(u0)
            held = []
            for sh in s["shifts"]:
                us = torch.roll(u0, shifts=tuple(sh), dims=tuple(range(1, d + 1)))
                b2 = us.clone()
                ys = call(us)
                tr["input_unchanged"] = tr["input_unchanged"] and bool(torch.equal(b2, us))
                held.append((sh, us, ys))
            # the SAME tensor object refilled in place with the shifted field (a staging buffer): the output follows the content
            buf = u0.clone()
            call(buf)
            sh1 = [1] + [0] * (d - 1)
            buf.copy_(torch.roll(u0, shifts=tuple(sh1), dims=tuple(range(1, d + 1))))
            held.append((sh1, buf.clone(), call(buf)))
            # every output is READ only now, after all the calls with inputs of the same shape: results are independent objects
            tr["y0"] = fld(y0)
            for sh, us, ys in held:
                tr["shifts"].append({"s": list(sh), "u": fld(us), "y": fld(ys)})
            # the SAME object at a resolution with one more node along the last axis (same spectrum length when N is even):
            # equivariance there, on the new grid
            N2 = list(N[:-1]) + [N[-1] + 1]
            v0 = (torch.randint(-8, 9, (2, *N2, ch)).to(torch.float32)) / 4.0
            w0 = call(v0)
            sh2 = [1] * d
            vs = torch.roll(v0, shifts=tuple(sh2), dims=tuple(range(1, d + 1)))
            ws = call(vs)
            tr["res2"] = {"s": sh2, "u0": fld(v0), "y0": fld(w0), "u": fld(vs), "y": fld(ws)}
            # resolution consistency: band-limited input (harmonics below the kept modes) on grids Nc and m*Nc
            if s["refine"]:
                tr["refine"] = []
                Nc = N[0]
                # band-limited below the kept modes and representable on the coarse grid without aliasing: on an odd grid
                # the highest frequency (Nc-1)/2 is an ordinary one, on an even grid the Nyquist frequency is excluded
                kmax = min(modes - 1, (Nc - 1) // 2)
                amps = torch.randint(-3, 4, (kmax + 1, 2, ch)).to(torch.float32)

                def field(n):
                    x = torch.arange(n, dtype=torch.float32) / n
                    f = torch.zeros(1, n, ch)
                    for k in range(kmax + 1):
                        f[0] += torch.cos(2 * math.pi * k * x)[:, None] * amps[k, 0] + torch.sin(2 * math.pi * k * x)[:, None] * amps[k, 1]
                    return f
                yc = call(field(Nc))
                for m in s["refine"]:
                    yf = call(field(m * Nc))
                    tr["refine"].append({"m": m, "yc": fld(yc), "yf": fld(yf)})
            yF1 = call(vF)
            tr["again"] = {"y0": fld(yF0), "y1": fld(yF1)}
    except Exception as e:
        import traceback
        tr["exc"] = type(e).__name__
        tr["msg"] = traceback.format_exc()[-500:]
    return tr


if __name__ == "__main__":
    main(run_one)

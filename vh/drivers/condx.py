"""Extended conditions driver (C04, C14, function-set clause of C09): PIDeepONet / DeepONet data / integro / Deep-Ritz /
parameter conditions on integer networks.  Replays a history of constructing conditions, evaluating them with
iteration numbers and fixing branch inputs by hand; records what the residuals received (flat integer lists with their
shapes), the losses as rationals and the number of draws of every function set."""
import fractions, torch
import torchphysics as tp
from torchphysics.problem.spaces import Points
from .common import main, watched
from .c09 import Square, Ident, set_int_weights
from .cond import Affine, X, T

Fv, U, K = tp.spaces.R1("f"), tp.spaces.R1("u"), tp.spaces.R1("k")
M = 3                       # sensors of the branch net at t = 1..M
NF, NL = 5, 5               # function ids 1..5, locations 0..4


def fvals(k, pts):
    a, b = (k % 3) - 1, (2 * k) % 5 - 2
    return torch.tensor([[float(a * s + b)] for s in pts], dtype=torch.float64)


def fn(k, t):
    return (torch.remainder(k, 3) - 1) * t + (torch.remainder(2 * k, 5) - 2)


class Cyc(tp.samplers.PointSampler):
    """a user-defined parameter sampler: every call returns the next draw of function ids (cyclically)"""

    def __init__(self, draws):
        super().__init__(n_points=len(draws[0]))
        self.draws, self.count = draws, 0

    def __len__(self):
        return len(self.draws[0])

    def sample_points(self, params=Points.empty(), device="cpu"):
        d = self.draws[self.count % len(self.draws)]
        self.count += 1
        return Points(torch.tensor([[float(k)] for k in d], dtype=torch.float64), K)


def mk_deeponet(seed):
    Fs = tp.spaces.FunctionSpace(tp.domains.Interval(T, 0.0, 4.0), Fv)
    disc = tp.samplers.DataSampler(Points(torch.arange(1, M + 1, dtype=torch.float64).reshape(M, 1), T))
    trunk = tp.models.FCTrunkNet(T, hidden=(2,), activations=Ident())      # small outputs: float32 accumulators stay exact
    branch = tp.models.FCBranchNet(Fs, disc, hidden=(2,), activations=Ident())
    model = tp.models.DeepONet(trunk, branch, U, output_neurons=2).double()
    g = torch.Generator().manual_seed(seed)
    sd = model.state_dict()
    for k in sorted(sd):
        sd[k] = torch.randint(-1, 2, sd[k].shape, generator=g).to(torch.float64)
        if sd[k].abs().sum() == 0:
            sd[k] = torch.ones_like(sd[k])
    model.load_state_dict(sd)
    return model, Fs


def flat(v):
    if isinstance(v, torch.Tensor):
        return {"shape": list(v.shape), "v": [int(round(float(x))) for x in v.detach().reshape(-1)]}
    return {"shape": [], "v": [int(round(float(v)))]}


NEEDS = {"dut": ["u", "t", "f"], "u_f": ["u", "f"], "u_g": ["u", "g"], "echo": ["u", "t", "f", "g"], "vec": ["u", "f", "t"],
         "int": ["u", "u_integral", "g"], "intvec": ["u", "u_integral", "x", "t"], "intx": ["u", "u_integral", "x_integral"],
         "intdx": ["u", "u_integral", "x_integral"], "intdt": ["u", "u_integral", "t"],
         "ritz": ["u", "g"], "pen": ["kappa"], "ut1": ["u", "t"],
         "hps": ["x", "t", "kappa", "g"], "hpd": ["x", "t", "kappa"]}
BODY = {"dut": "_grad(u, t) - f", "u_f": "u - f", "u_g": "u - g", "echo": "2 * u + 3 * t + 5 * f + 7 * g", "vec": "_torch.cat([u - f, u + t], dim=-1)",
        "int": "u - _torch.sum(u_integral, dim=1, keepdim=True) + g",
        "intvec": "_torch.cat([u - _torch.sum(u_integral, dim=1, keepdim=True), x + t], dim=-1)",
        "intx": "u - _torch.sum(u_integral * x_integral, dim=1, keepdim=True)",
        "intdx": "u - _torch.sum(_grad(u_integral, x_integral), dim=1, keepdim=True)",
        "intdt": "u - _grad(u_integral, t)",
        "ritz": "u * u - g", "pen": "(kappa - 3) ** 2", "ut1": "u * t + 1",
        "hps": "kappa * x + 3 * t - g", "hpd": "kappa * x - t"}


def mk_res(kind, rev, log):
    names = list(NEEDS[kind])
    if rev:
        names.reverse()
    sig = list(names)
    if sig[-1] in ("f", "g"):          # an input / data function taken with a python DEFAULT (def residual(u, f=0.0)): still supplied by name
        sig[-1] += "=0.0"
    src = "def res(%s):\n    _log.append({k: v for k, v in locals().items()})\n    return %s\n" % (", ".join(sig), BODY[kind])
    ns = {"_log": log, "_torch": torch, "_grad": tp.utils.grad}
    exec(src, ns)
    return ns["res"]


def rat(x, den=64):
    f = fractions.Fraction(float(x)).limit_denominator(den)
    return [f.numerator, f.denominator]


def run_one(s):
    torch.manual_seed(0)
    models, fss = {}, {}
    net = []
    locs = Points(torch.arange(0, NL, dtype=torch.float64).reshape(NL, 1), T)
    for mid in (1, 2):
        model, Fs = mk_deeponet(40 + mid)
        models[mid] = (model, Fs)
        fb = torch.stack([fvals(k, range(1, M + 1)) for k in range(1, NF + 1)])
        o = model(locs, fb).as_tensor.detach()               # (NF, NL, 1): the observed table of the network
        net.append([[int(round(float(o[i, j, 0]))) for j in range(NL)] for i in range(NF)])
    samplers = []
    for i, draws in enumerate(s["fsets"]):
        ps = Cyc(draws)
        samplers.append(ps)
        fss[i + 1] = tp.domains.CustomFunctionSet(models[1][1], ps, fn)
    conds, logs, ev = {}, {}, []
    for op in s["ops"]:
        e = {"a": op["a"], "exc": "", "recv": {}, "loss": [0, 1], "loss2": [0, 1], "counts": [], "ncalls": 0}
        if op["a"] == "con":
            cid, log = op["c"], []
            logs[cid] = log
            g = lambda t: op["g"][0] * t + op["g"][1]
            if op.get("gt"):          # g as a table: ONE tensor object per scenario with the values at the (shared) rows, handed to every condition
                if "gt" not in models:
                    models["gt"] = torch.tensor([[float(op["g"][0] * r[1] + op["g"][1])] for r in op["rows"]], dtype=torch.float64)
                g = models["gt"]

            def pts_sampler():
                if op["kind"] in ("pidon",):
                    p = Points(torch.tensor([[float(v)] for v in op["pts"]], dtype=torch.float64), T)
                elif op["order"] == "xt":
                    p = Points(torch.tensor([[float(r[0]), float(r[1])] for r in op["rows"]], dtype=torch.float64), X * T)
                else:
                    p = Points(torch.tensor([[float(r[1]), float(r[0])] for r in op["rows"]], dtype=torch.float64), T * X)
                smp = tp.samplers.DataSampler(p)
                return smp.make_static() if op["static"] else smp

            def build(op=op, log=log, g=g):
                kind = op["kind"]
                if kind == "pidon" and op.get("red", "mean") != "mean":
                    from torchphysics.problem.conditions.condition import SquaredError
                    return tp.conditions.DeepONetSingleModuleCondition(models[op["mid"]][0], fss[op["fs"]], pts_sampler(),
                                                                       mk_res(op["res"], op["rev"], log), error_fn=SquaredError(),
                                                                       reduce_fn=(torch.sum if op["red"] == "sum" else torch.max), data_functions={"g": g})
                if kind == "pidon":
                    return tp.conditions.PIDeepONetCondition(models[op["mid"]][0], fss[op["fs"]], pts_sampler(),
                                                             mk_res(op["res"], op["rev"], log), data_functions={"g": g})
                if kind == "dondata":
                    nF, n = len(op["fids"]), len(op["pts"])
                    bd = torch.stack([fvals(k, range(1, M + 1)) for k in op["fids"]])
                    td = torch.tensor([[float(v)] for v in op["pts"]], dtype=torch.float64)
                    od = torch.full((nF, n, 1), float(op["tgt"]), dtype=torch.float64)
                    dl = tp.utils.DeepONetDataLoader(bd, td, od, Fv, T, U, branch_batch_size=nF, trunk_batch_size=n,
                                                     shuffle_branch=False, shuffle_trunk=False)
                    cf = mk_res("ut1", False, log) if op["res"] == "ut1" else None
                    return tp.conditions.DeepONetDataCondition(models[op["mid"]][0], dl, norm=("inf" if op["norm"] == 0 else op["norm"]),
                                                               constrain_fn=cf, root=float(op["root"]), use_full_dataset=op["full"])
                if kind == "integro":
                    ip = Points(torch.tensor([[float(v)] for v in op["ipts"]], dtype=torch.float64), X)
                    return tp.conditions.IntegroPINNCondition(Affine(X * T, op["model"]), pts_sampler(), mk_res(op["res"], op["rev"], log),
                                                              tp.samplers.DataSampler(ip), data_functions={"g": g})
                if kind == "ritz":
                    return tp.conditions.DeepRitzCondition(Affine(T * X, op["model"]), pts_sampler(), mk_res("ritz", False, log),
                                                           data_functions={"g": g})
                if kind == "param":
                    par = tp.models.Parameter(float(op["k"]), tp.spaces.R1("kappa"))
                    par.as_tensor.data = par.as_tensor.data.double()
                    return tp.conditions.ParameterCondition(par, mk_res("pen", False, log), 1.0)
                if kind in ("hpms", "hpmd"):
                    par = tp.models.Parameter(float(op["k"]), tp.spaces.R1("kappa"))
                    par.as_tensor.data = par.as_tensor.data.double()
                    net_ = Affine(X * T, op["model"])          # (the module to be optimised; HPM residuals do not receive its output)
                    if kind == "hpms":
                        return tp.conditions.HPM_EquationLoss_at_Sampler(net_, pts_sampler(), mk_res("hps", op["rev"], log),
                                                                         data_functions={"g": g}, parameter=par)
                    sp, cols = (X * T, (0, 1)) if op["order"] == "xt" else (T * X, (1, 0))
                    xin = Points(torch.tensor([[float(r[cols[0]]), float(r[cols[1]])] for r in op["rows"]], dtype=torch.float64), sp)
                    tgt = Points(torch.zeros(len(op["rows"]), 1, dtype=torch.float64), U)
                    dl = tp.utils.PointsDataLoader((xin, tgt), batch_size=op["bs"], shuffle=False)
                    return tp.conditions.HPM_EquationLoss_at_DataPoints(net_, dl, ("inf" if op["norm"] == 0 else op["norm"]), mk_res("hpd", False, log),
                                                                        root=float(op["root"]), use_full_dataset=op["full"], parameter=par)
                raise ValueError(kind)
            r = watched(build)
            if r[0] != "ok":
                e["exc"] = r[1] if len(r) > 1 else "hang"
                e["msg"] = r[2][:300] if len(r) > 2 else ""
            else:
                conds[cid] = r[1]
        elif op["a"] == "fix":
            r = watched(lambda: models[op["mid"]][0].fix_branch_input(fvals(op["k"], range(1, M + 1))))
            if r[0] != "ok":
                e["exc"] = r[1] if len(r) > 1 else "hang"
        else:
            cid = op["c"]
            if cid not in conds:
                e["exc"] = "not-constructed"
            else:
                log = logs[cid]
                del log[:]
                it = None if op["it"] == -2 else op["it"]
                r = watched(lambda: conds[cid](device="cpu", iteration=it))
                if r[0] != "ok":
                    e["exc"] = r[1] if len(r) > 1 else "hang"
                    e["msg"] = r[2][:300] if len(r) > 2 else ""
                else:
                    v = float(r[1].reshape(-1)[0]) if isinstance(r[1], torch.Tensor) else float(r[1])
                    e["loss"], e["loss2"] = rat(v), rat(v * v)
                    e["ncalls"] = len(log)
                    if log:
                        e["recv"] = {k: flat(v) for k, v in log[-1].items()}
        e["counts"] = [ps.count for ps in samplers]
        ev.append(e)
    return {"events": ev, "net": net}


if __name__ == "__main__":
    main(run_one)

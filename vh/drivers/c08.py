"""C08 driver: build real models from the AST (random weights), present the same named rows in different variable
orders / row orders / batch arrangements, log every output row with the id of the named input row."""
import torch
import torchphysics as tp
from torchphysics.problem.spaces import Points, Space
from .common import main, watched

POOL = [  # named rows: x (2), t, k, u, w (2) -- integers so that "same content" is exact
    {"x": [1.0, -2.0], "t": [0.5], "k": [2.0], "z": [-1.0]}, {"x": [0.0, 1.0], "t": [-1.0], "k": [0.0], "z": [1.5]},
    {"x": [-1.5, 0.5], "t": [2.0], "k": [-1.0], "z": [0.5]}, {"x": [2.0, 2.0], "t": [0.0], "k": [1.0], "z": [-2.0]},
    {"x": [0.5, -0.5], "t": [1.5], "k": [0.5], "z": [2.0]}, {"x": [-2.0, -1.0], "t": [-0.5], "k": [-2.0], "z": [0.0]},
]
SC = 4096


def space(sp):
    s = Space({})
    for n, d in sp:
        s = s * Space({n: d})
    return s


def build(m):
    M = tp.models
    if m["k"] == "leaf":
        i, o = space(m["ins"]), space(m["out"])
        kd = m["kind"]
        if kd == "fcn":
            return M.FCN(i, o, hidden=(5, 4))
        if kd == "fcn_relun":      # the library's relu^n activation with a different n in every layer
            return M.FCN(i, o, hidden=(5, 4), activations=[M.ReLUn(2), M.ReLUn(3)])
        if kd == "fcn_adaptive":
            return M.FCN(i, o, hidden=(5, 4), activations=[M.AdaptiveActivationFunction(torch.nn.Tanh(), inital_a=0.5, scaling=2.0), M.ReLUn(2)])
        if kd == "fcn_sinus":
            return M.FCN(i, o, hidden=(4, 4), activations=M.Sinus())
        if kd == "harmonic":
            return M.Harmonic_FCN(i, o, max_frequenz=2, hidden=(5,))
        if kd == "poly":
            return M.Polynomial_FCN(i, o, polynomial_degree=2, hidden=(4,))
        if kd == "polyres":        # residual connections through hidden layers of width 1
            return M.Polynomial_FCN(i, o, polynomial_degree=2, hidden=(1, 1), res_connection=True)
        if kd == "polyres3":
            return M.Polynomial_FCN(i, o, polynomial_degree=1, hidden=(3, 3), res_connection=True)
        if kd == "qres":
            return M.QRES(i, o, hidden=(4, 3))
        if kd == "deepritz":
            return M.DeepRitzNet(i, o, width=4, depth=2)
        if kd == "deepritz2":       # narrow residual blocks: a block is easily inactive for a single row
            return M.DeepRitzNet(i, o, width=2, depth=3)
        if kd == "deepritz1":
            return M.DeepRitzNet(i, o, width=1, depth=4)
        if kd == "norm":
            return M.NormalizationLayer(tp.domains.Parallelogram(i, [-2.0, -2.0], [2.0, -2.0], [-2.0, 2.0]))
        raise ValueError(kd)
    parts = [build(x) for x in m["ms"]]
    return M.Sequential(*parts) if m["k"] == "seq" else M.Parallel(*parts)


def sp_list(s):
    return [[k, int(v)] for k, v in s.items()]


def present(order, rows, axes):
    # a name "<v>_other" carries the values of v under another name (a variable the model does not know)
    co = {n: torch.tensor([POOL[r - 1][n[:-6] if n.endswith("_other") else n] for r in rows], dtype=torch.float32) for n in order}
    p = Points.from_coordinates(co)
    if axes == 2:
        t = p.as_tensor.reshape(2, len(rows) // 2, -1)
        p = Points(t, p.space)
    return p


def fxrow(t):
    return [int(round(float(v) * SC)) if abs(float(v)) < 2 ** 18 else 2 ** 30 for v in t]


def run_one(s):
    torch.manual_seed(1000 + s["tid"])
    m = s["model"]
    r = watched(lambda: build(m))
    if r[0] != "ok":
        return {"build_exc": r[1] if len(r) > 1 else "hang", "obs": [], "pres": []}
    model = r[1]
    model.eval()
    tr = {"build_exc": "", "ins": sp_list(model.input_space), "outs": sp_list(model.output_space), "pres": []}
    parts = list(model.models) if m["k"] in ("seq", "par") else []
    pres = []
    for pr in s["pres"]:
        if pr["axes"] == 2 and not pr["drop"]:
            # history: the same object first sees a batch of the SAME shape whose slices along the leading axis are copies of each
            # other (rows a, b | a, b), then the batch whose slices differ
            pres.append(dict(pr, rows=list(pr["rows"][:len(pr["rows"]) // 2]) * 2))
        pres.append(pr)
    for pr in pres:
        rec = {"order": pr["order"], "rows": pr["rows"], "axes": pr["axes"], "drop": pr["drop"], "exc": "", "obs": [], "parts_ok": True, "outsp": []}
        pts = present(pr["order"], pr["rows"], pr["axes"])
        with torch.no_grad():
            r = watched(lambda: model(pts))
        if r[0] != "ok":
            rec["exc"] = r[1] if len(r) > 1 else "hang"
            tr["pres"].append(rec)
            continue
        out = r[1]
        rec["outsp"] = sp_list(out.space)
        flat = out.as_tensor.reshape(len(pr["rows"]), -1) if out.as_tensor.numel() else out.as_tensor
        rec["obs"] = [{"rid": rid, "out": fxrow(flat[i])} for i, rid in enumerate(pr["rows"])]
        # composition of the observed parts (flat presentations only)
        if parts and pr["axes"] == 1 and not pr["drop"]:
            with torch.no_grad():
                if m["k"] == "seq":
                    cur = pts
                    for part in parts:
                        cur = part(cur)
                    ref = cur.as_tensor
                else:
                    outs = [part(pts[:, list(part.input_space.keys())]) for part in parts]
                    ref = torch.cat([o.as_tensor for o in outs], dim=-1)
            rec["ref"] = [fxrow(ref[i]) for i in range(len(pr["rows"]))]
        tr["pres"].append(rec)
    # history on ONE Points object: evaluated, its content replaced in place (a preallocated input buffer), evaluated again;
    # the second output is recorded as a presentation of the new rows (outputs depend on the current content only)
    names = [n for n, _ in tr["ins"]]
    ra, rb = [1, 2, 3, 4], [4, 2, 6, 1]
    buf = present(names, ra, 1)
    rec = {"order": names, "rows": rb, "axes": 1, "drop": "", "exc": "", "obs": [], "parts_ok": True, "outsp": []}

    def reuse():
        with torch.no_grad():
            model(buf)
            buf.as_tensor.copy_(present(names, rb, 1).as_tensor)
            return model(buf)
    r = watched(reuse)
    if r[0] != "ok":
        rec["exc"] = r[1] if len(r) > 1 else "hang"
    else:
        out = r[1]
        rec["outsp"] = sp_list(out.space)
        flat = out.as_tensor.reshape(len(rb), -1)
        rec["obs"] = [{"rid": rid, "out": fxrow(flat[i])} for i, rid in enumerate(rb)]
    tr["pres"].append(rec)
    # history in the process: unrelated models (other hyper-parameters of the same building blocks) are constructed and evaluated,
    # then the model under observation sees the first presentation again: same rows, same outputs
    nodrop = [p for p in s["pres"] if not p["drop"]]       # (the first presentation of the list may be one with a dropped variable)
    if nodrop:
        pr = nodrop[0]
        rec = {"order": pr["order"], "rows": pr["rows"], "axes": pr["axes"], "drop": pr["drop"], "exc": "", "obs": [], "parts_ok": True, "outsp": []}
        if not pr["drop"]:
            def after_others():
                M = tp.models
                sx, su = Space({"x": 2}), Space({"u": 1})
                px = Points(torch.tensor([[0.5, -1.0], [2.0, 1.0]]), sx)
                with torch.no_grad():
                    for other in (M.FCN(sx, su, hidden=(3,), activations=M.ReLUn(4)), M.FCN(sx, su, hidden=(3,), activations=M.AdaptiveActivationFunction(torch.nn.Tanh(), 2.0)),
                                  M.Harmonic_FCN(sx, su, max_frequenz=3, hidden=(3,)), M.Polynomial_FCN(sx, su, polynomial_degree=3, hidden=(2,)),
                                  M.QRES(sx, su, hidden=(3,)), M.DeepRitzNet(sx, su, width=3, depth=1)):
                        other(px)
                    return model(present(pr["order"], pr["rows"], pr["axes"]))
            r = watched(after_others)
            if r[0] != "ok":
                rec["exc"] = r[1] if len(r) > 1 else "hang"
            else:
                out = r[1]
                rec["outsp"] = sp_list(out.space)
                flat = out.as_tensor.reshape(len(pr["rows"]), -1)
                rec["obs"] = [{"rid": rid, "out": fxrow(flat[i])} for i, rid in enumerate(pr["rows"])]
            tr["pres"].append(rec)
    return tr


if __name__ == "__main__":
    main(run_one)

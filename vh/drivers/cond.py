"""Conditions driver (C04, C14): replay a history of constructing and evaluating real conditions that may share user
dictionaries; residuals are recording functions; everything observed is an integer (float64 models, integer data)."""
import fractions, torch
import torchphysics as tp
from torchphysics.problem.spaces import Points
from .common import main, watched

FT = [(2, -1, 1), (-1, 3, 0), (1, 1, -2)]
X, T, Uo = tp.spaces.R1("x"), tp.spaces.R1("t"), tp.spaces.R1("u")


class Affine(tp.models.Model):
    def __init__(self, ins, coef):
        super().__init__(ins, Uo)
        names = list(ins.keys())
        self.lin = torch.nn.Linear(len(names), 1).double()
        w = [coef[0] if n == "x" else coef[1] for n in names]
        with torch.no_grad():
            self.lin.weight.copy_(torch.tensor([w], dtype=torch.float64))
            self.lin.bias.copy_(torch.tensor([float(coef[2])], dtype=torch.float64))

    def forward(self, points):
        points = self._fix_points_order(points)
        return Points(self.lin(points.as_tensor), self.output_space)


def mk_data_fn(fid):
    p, q, r = FT[fid - 1]
    if fid in (1, 3):            # ONE def for two functions: t has a DEFAULT (conditions that sample x only use it) and the coefficients are
        def f(x, t=0.0, p=p, q=q, r=r):          # bound through default arguments too (the lambda x, k=k idiom: same code object, other defaults)
            return p * x + q * t + r
        return f

    def f(t, x, p=p, q=q, r=r):  # declared in another order than the spaces on purpose; values bound through DEFAULT arguments (the lambda x, k=k idiom)
        return p * x + q * t + r
    return f


SDRAWS = [[[[1, 1], [-2, 3]], [[0, -1], [2, 2]], [[3, 0], [-1, -1]]],
          [[[2, 0], [-1, 2], [1, 1]], [[0, 3], [-2, -2], [1, -1]]],
          [[[1, 0], [2, -1]], [[-1, 3], [0, 2]], [[3, 1], [-2, 0]]]]        # = Conditions.SDraws


class Cyc(tp.samplers.PointSampler):
    """a user-defined sampler whose successive draws differ (as a random sampler's do), cyclically through SDRAWS[sid]"""

    def __init__(self, draws):
        super().__init__(n_points=len(draws[0]))
        self.draws, self.count = draws, 0

    def __len__(self):
        return len(self.draws[0])

    def sample_points(self, params=Points.empty(), device="cpu", **kw):
        d = self.draws[self.count % len(self.draws)]
        self.count += 1
        return Points(torch.tensor([[float(a), float(b)] for a, b in d], dtype=torch.float64), X * T)


NEEDS = {"u_f": ["u", "f"], "ku_x": ["u", "x", "kappa"], "ux_t": ["u", "x", "t"], "echo": ["u", "x", "t"],
         "echofg": ["u", "x", "t", "f", "g"], "vec": ["u", "f", "x"], "per0": ["u_left", "u_right"],
         "per": ["u_left", "u_right", "f_left", "f_right"], "per_d": ["u_left", "u_right", "t", "x_left"]}
BODY = {"u_f": "u - f", "ku_x": "kappa * u - x", "ux_t": "_grad(u, x) + t", "echo": "2 * u + 3 * x + 5 * t",
        "echofg": "2 * u + 3 * x + 5 * t + 7 * f + 11 * g", "vec": "_torch.cat([u - f, u + x], dim=1)",
        "per0": "u_left - u_right", "per": "u_left - u_right + f_left - 2 * f_right",
        "per_d": "_grad(u_left, t) + 2 * _grad(u_right, t) + 5 * _grad(u_left, x_left) + 0 * t"}


def mk_res(kind, rev, log):
    names = list(NEEDS[kind])
    if rev:
        names.reverse()
    sig = list(names)
    if sig[-1] in ("f", "g"):          # an input / data function taken with a python DEFAULT (def residual(u, f=0.0)): still supplied by name
        sig[-1] += "=0.0"
    src = "def res(%s):\n    _log.append({k: v for k, v in locals().items()})\n    return %s\n" % (", ".join(sig), BODY[kind])
    ns = {"_log": log, "_torch": torch, "_grad": tp.utils.grad}
    exec(src, ns)
    return ns["res"]


def ints(t):
    return [int(round(float(v))) for v in t.detach().reshape(-1)]


def dict_state(d, orig, inner):
    out = {}
    for k in sorted(d):
        v = d[k]
        # an entry the user wrapped as UserFunction himself: still the same object AND still wrapping the same python function
        ok_inner = (getattr(v, "fun", None) is inner[k]) if k in inner else True
        out[k] = {"type": type(v).__name__, "same": (v is orig[k]) and ok_inner}
    return {"keys": sorted(d), "items": out}


def run_one(s):
    dicts, origs, inners = [], [], []
    for di, dd in enumerate(s["dicts"]):
        d = {k: mk_data_fn(fid) for k, fid in dd.items()}
        inner = {}
        if di >= 1:          # the second and third dictionary hold functions the user already wrapped as UserFunction objects
            inner = dict(d)
            d = {k: tp.utils.UserFunction(f) for k, f in d.items()}
        dicts.append(d)
        origs.append(dict(d))
        inners.append(inner)
    conds, logs = {}, {}
    ev = []
    bases = [Cyc(SDRAWS[0]), Cyc(SDRAWS[1]), Cyc(SDRAWS[2])]
    shared = {1: bases[0].make_static(), 2: bases[1], 3: bases[2].make_static(resample_interval=2)}          # ONE sampler object per id, handed to every condition that names it
    models = {}
    for op in s["ops"]:
        e = {"a": op["a"], "c": op["c"], "exc": "", "recv": {}, "loss": [0, 1], "nrows": 0}
        if op["a"] == "con":
            cid = op["c"]
            rows = op["rows"]
            log = []
            logs[cid] = log
            ins = X if op.get("xonly") else (X * T if op["morder"] == "xt" else T * X)
            if op.get("mid"):
                model = models.setdefault(op["mid"], Affine(ins, op["model"]))      # one model object shared by conditions
            else:
                model = Affine(ins, op["model"])
            res = mk_res(op["res"], op["rev"], log)
            d = dicts[op["dict"] - 1] if op["dict"] else {}
            # the user's dictionary object itself is handed over (shared between conditions that name the same dict)
            use = d
            par = tp.models.Parameter(float(op["kappa"]), tp.spaces.R1("kappa")) if op["kappa"] else None
            kw = {"parameter": par} if par is not None else {}
            if par is not None:
                par.as_tensor.data = par.as_tensor.data.double()

            def build():
                if op["kind"] == "periodic":
                    tpts = torch.tensor([[float(r[1])] for r in rows], dtype=torch.float64)
                    smp = tp.samplers.DataSampler(Points(tpts, T))
                    if op["static"]:
                        smp = smp.make_static()
                    iv = tp.domains.Interval(X, float(op["lo"]), float(op["hi"]))
                    return tp.conditions.PeriodicCondition(model, iv, res, non_periodic_sampler=smp, data_functions=use, **kw)
                if op.get("smp"):
                    cls = tp.conditions.PINNCondition if op["kind"] == "pinn" else tp.conditions.MeanCondition
                    return cls(model, shared[op["smp"]], res, data_functions=use, **kw)
                if op.get("xonly"):          # points over x alone (the rows carry t = 0, the default of the data functions)
                    pts = Points(torch.tensor([[float(r[0])] for r in rows], dtype=torch.float64), X)
                elif op["order"] == "xt":
                    pts = Points(torch.tensor([[float(r[0]), float(r[1])] for r in rows], dtype=torch.float64), X * T)
                else:
                    pts = Points(torch.tensor([[float(r[1]), float(r[0])] for r in rows], dtype=torch.float64), T * X)
                smp = tp.samplers.DataSampler(pts)
                if op["static"]:
                    smp = smp.make_static()
                cls = tp.conditions.PINNCondition if op["kind"] == "pinn" else tp.conditions.MeanCondition
                if op.get("track") is False:
                    kw["track_gradients"] = False
                return cls(model, smp, res, data_functions=use, **kw)
            r = watched(build)
            if r[0] != "ok":
                e["exc"] = r[1] if len(r) > 1 else "hang"
            else:
                conds[cid] = r[1]
        elif op["a"] == "mv":      # what Solver.on_train_start does with every condition
            def mv():
                solver = tp.solver.Solver(train_conditions=[conds[k] for k in sorted(conds)])
                solver.on_train_start()
            r = watched(mv)
            if r[0] != "ok":
                e["exc"] = r[1] if len(r) > 1 else "hang"
                e["msg"] = r[2][:200] if len(r) > 2 else ""
        else:
            cid = op["c"]
            if cid not in conds:
                e["exc"] = "not-constructed"
            else:
                log = logs[cid]
                del log[:]
                r = watched(lambda: conds[cid](device="cpu"))
                if r[0] != "ok":
                    e["exc"] = r[1] if len(r) > 1 else "hang"
                    e["msg"] = r[2][:200] if len(r) > 2 else ""
                else:
                    f = fractions.Fraction(float(r[1])).limit_denominator(4096)
                    e["loss"] = [f.numerator, f.denominator]
                    e["ncalls"] = len(log)
                    if log:
                        e["recv"] = {k: ints(v) if isinstance(v, torch.Tensor) else [int(round(float(v)))] for k, v in log[-1].items()}
        e["dicts"] = [dict_state(d, o, i_) for d, o, i_ in zip(dicts, origs, inners)]
        e["scounts"] = [b.count for b in bases]
        ev.append(e)
    return {"events": ev}


if __name__ == "__main__":
    main(run_one)

"""C01 driver: call the sampling methods of a domain (or its boundary) and the point samplers built on it, for
parameter batches, and log every returned row as a homogeneous lattice point together with the parameter row it
is paired with."""
import itertools, torch
import torchphysics as tp
from torchphysics.problem.spaces import Points, Space
from .common import main, watched
from .. import universe as U


def rows_for(names, k, tid):
    combos = list(itertools.product([0, 1, 2], repeat=len(names)))
    return [dict(zip(names, combos[(i * 5 + tid) % len(combos)])) for i in range(k)]


def log_rows(e, pts, prow_of, names, limit=60):
    """pts: Points (space of e [+ params]); prow_of(i) -> dict of parameter values for row i"""
    vs = U.space_vars(e)
    t = pts.as_tensor.detach()
    coords = pts.coordinates
    out = []
    n = len(pts)
    idx = list(range(n)) if n <= limit else sorted(set(list(range(0, n, max(1, n // limit)))[:limit] + [0, n - 1]))
    for i in idx:
        c = {v: [float(x) for x in coords[v][i]] for v in vs}
        out.append(U.q_of(c, prow_of(i)))
    return out


def run_one(s):
    e, tid = s["expr"], s["tid"]
    dom = U.build(e)
    names = sorted(U.free_vars(e))
    if s["boundary"]:
        r = watched(lambda: dom.boundary)
        if r[0] != "ok":
            return {"calls": [], "bd_exc": r[1] if len(r) > 1 else "hang"}
        dom = r[1]
    calls = []
    hangs = 0
    for ci, c in enumerate(s["calls"]):
        k = max(c["k"], 1) if names else 0      # a parameter-dependent domain needs its parameters
        rows = rows_for(names, k, tid + ci)
        par = U.mk_params(names, rows)
        if c.get("extra"):
            # a batch of parameter rows that ALSO carries a variable the expression does not use (a parameter of another part of the
            # problem): n points for every row all the same
            free = [v for v in ("t", "k") if v not in names and v not in U.space_vars(e)]
            if free:
                nm2 = sorted(names + free[:1])
                k = c["k"]
                rows = rows_for(nm2, k, tid + ci)
                par = U.mk_params(nm2, rows)
        rec = {"kind": c["kind"], "n": c.get("n", 0), "d": c.get("d", 0), "k": k, "exc": "", "rows": [], "count": 0,
               "prm": [{n: v * U.F for n, v in r.items()} for r in rows], "filter": c.get("filter", 0)}
        kind = c["kind"]
        n = c.get("n")
        flt = None
        if c.get("filter"):
            v0 = U.space_vars(e)[0]
            src = "def flt(%s):\n    return %s[:, :1] >= 0.0\n" % (v0, v0)
            ns = {}
            exec(src, ns)
            flt = ns["flt"]

        def call():
            if kind == "dom_random":
                return dom.sample_random_uniform(n=n, params=par), "block"
            if kind == "dom_grid":
                return dom.sample_grid(n=n, params=par), "block"
            if kind == "dom_random_d":
                return dom.sample_random_uniform(d=c["d"], params=par), "single"
            if kind == "dom_grid_d":
                return dom.sample_grid(d=c["d"], params=par), "single"
            if kind == "s_random":
                return tp.samplers.RandomUniformSampler(dom, n_points=n, filter_fn=flt).sample_points(par), "cols"
            if kind == "s_random_d":
                return tp.samplers.RandomUniformSampler(dom, density=c["d"], filter_fn=flt).sample_points(par), "cols"
            if kind == "s_grid":
                return tp.samplers.GridSampler(dom, n_points=n, filter_fn=flt).sample_points(par), "cols"
            if kind == "s_gauss":
                d = sum(U.SPACES[v] for v in U.space_vars(e))
                return tp.samplers.GaussianSampler(dom, n_points=n, mean=[0.0] * d, std=1.5).sample_points(par), "cols"
            if kind == "s_lhs":
                return tp.samplers.LHSSampler(dom, n_points=n).sample_points(par), "cols"
            if kind in ("s_adaptive", "s_adaptive_r"):
                # history: first call, then calls with a loss (some points are kept) and with OTHER parameter values
                if kind == "s_adaptive":
                    smp = tp.samplers.AdaptiveThresholdRejectionSampler(dom, resample_ratio=0.5, n_points=n, filter_fn=flt)
                else:
                    smp = tp.samplers.AdaptiveRandomRejectionSampler(dom, n_points=n, filter_fn=flt)
                rows2 = rows_for(names, k, tid + ci + 5)
                rec["prm2"] = [{n: v * U.F for n, v in r.items()} for r in rows2]       # (the rows of the call in between)
                par2 = U.mk_params(names, rows2)
                first = smp.sample_points(params=par)
                loss = torch.arange(len(first), dtype=torch.float32) % 3
                second = smp.sample_points(unreduced_loss=loss + 1.0, params=par2)
                loss = (torch.arange(len(second), dtype=torch.float32) + 1) % 3
                return smp.sample_points(unreduced_loss=loss + 1.0, params=par), "cols"
            raise ValueError(kind)
        if hangs >= 2:          # (nearly) empty domain: every call would run into the watchdog
            rec["exc"] = "skipped"
            calls.append(rec)
            continue
        r = watched(call, 6)
        if r[0] == "hang":
            hangs += 1
        if r[0] != "ok":
            rec["exc"] = r[1] if len(r) > 1 else "hang"
            rec["msg"] = r[2] if len(r) > 2 else ""
            if rec["exc"] == "RuntimeError" and "could not find a single" in rec["msg"]:
                rec["exc"] = "FilterGaveUp"       # the documented safeguard of filtered samplers (20 rounds without a valid point)
            calls.append(rec)
            continue
        pts, mode = r[1]
        rec["count"] = len(pts)
        m = len(pts)
        if mode == "cols":
            pc = pts.coordinates
            missing = [nm for nm in names if nm not in pc] if k else []
            if missing:
                rec["exc"] = "params-missing"
                calls.append(rec)
                continue
            prow = (lambda i: {nm: int(round(float(pc[nm][i, 0]))) for nm in names}) if k else (lambda i: {})
        elif mode == "block":
            per = n
            prow = (lambda i: rows[min(i // per, k - 1)]) if k else (lambda i: {})
        else:
            prow = (lambda i: rows[0]) if k else (lambda i: {})
        vs = U.space_vars(e)
        if any(v not in pts.coordinates for v in vs):
            rec["exc"] = "space-missing"
        else:
            rec["rows"] = log_rows(e, pts, prow, names)
        calls.append(rec)
    return {"calls": calls, "bd_exc": ""}


if __name__ == "__main__":
    main(run_one)

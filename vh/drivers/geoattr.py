"""Driver for the derived attributes of domain expressions (C10 volume / counts, C17 partial evaluation,
C18 bounding box / normalization): calls volume, bounding_box, necessary_variables, set_volume, density
sampling, D(**values) on real domain objects and logs fixed-point integers."""
import itertools, math, torch
import torchphysics as tp
from torchphysics.problem.spaces import Points, Space
from .common import main, watched, pick
from .. import universe as U
from . import c05

VS = 1024      # volume scale


def fxv(t, scale):
    return [U.quant(v, scale) for v in t.reshape(-1)]


def box_out(b):
    """outward rounding to fine units: mins floor, maxs ceil; NaN -> sentinel"""
    out = []
    for i, v in enumerate(b.reshape(-1)):
        v = float(v)
        if math.isnan(v) or math.isinf(v):
            out.append(2 ** 30)
        else:
            out.append(int(math.floor(v * U.F - 1e-3)) if i % 2 == 0 else int(math.ceil(v * U.F + 1e-3)))
    return out


def attr(dom, names, rows, tr, pre=""):
    par = U.mk_params(names, rows)
    tr[pre + "nv"] = sorted(dom.necessary_variables)
    r = watched(lambda: dom.volume(par))
    if r[0] == "ok":
        v = r[1]
        tr[pre + "vol"] = fxv(v, VS)
        tr[pre + "vol_shape_ok"] = list(v.shape) == [max(len(rows), 1), 1]
        tr[pre + "vol_exc"] = ""
    else:
        tr[pre + "vol"], tr[pre + "vol_shape_ok"], tr[pre + "vol_exc"] = [], False, (r[1] if len(r) > 1 else "hang")
    r = watched(lambda: dom.bounding_box(par))
    if r[0] == "ok":
        b = r[1]
        tr[pre + "box"] = box_out(torch.as_tensor(b))
        tr[pre + "box_shape"] = [int(x) for x in torch.as_tensor(b).shape]
        tr[pre + "box_exc"] = ""
    else:
        tr[pre + "box"], tr[pre + "box_shape"], tr[pre + "box_exc"] = [], [], (r[1] if len(r) > 1 else "hang")


def run_one(s):
    e, tid = s["expr"], s["tid"]
    names = sorted(U.free_vars(e))
    rows = s["rows"] if names else []
    rows = [{n: r[n] for n in names} for r in rows]
    tr = {"prm": [{n: v * U.F for n, v in r.items()} for r in rows]}
    dom = U.build(e)
    # single-row attributes first (tightness of the box, per-row volume), then the whole batch on the SAME object:
    # an answer cached from an earlier parameter row must not leak into a later call
    tr["single"] = []
    for r_ in rows[:3] if rows else [{}]:
        t1 = {}
        attr(dom, names, [r_] if names else [], t1)
        tr["single"].append(t1)
    attr(dom, names, rows, tr)
    # history: the first operand of an intersection is a product with a USER-SET bounding box (its own exact box, as a list); after the
    # intersection's box was asked, the operand's box is still the one the user set
    tr["pbox_hist"], tr["pbox_hist_exc"] = [], "none"
    if e["k"] == "and" and e["l"]["k"] == "prod" and not names:
        def hist_box():
            d5 = U.build(e)
            P_ = d5.domain_a
            P_.set_bounding_box([float(v) for v in P_.bounding_box()])
            d5.bounding_box()
            return P_.bounding_box()
        r = watched(hist_box)
        tr["pbox_hist"] = box_out(torch.as_tensor(r[1])) if r[0] == "ok" else []
        tr["pbox_hist_exc"] = "" if r[0] == "ok" else (r[1] if len(r) > 1 else "hang")
    # whole-number positions given as INTEGER tensors (torch.tensor([1, -2])): the same box
    tr["boxint"], tr["boxint_exc"] = [], "none"
    if e["k"] in ("circle", "sphere", "par", "tri") and not names:
        r = watched(lambda: U.build_intpos(e).bounding_box())
        tr["boxint"] = box_out(torch.as_tensor(r[1]).to(torch.float64)) if r[0] == "ok" else []
        tr["boxint_exc"] = "" if r[0] == "ok" else (r[1] if len(r) > 1 else "hang")
    # the same shape far away from the origin (1e6, 2e6, ...): the measure does not depend on where the shape is
    tr["volfar"], tr["volfar_exc"] = [], "none"
    js_ = __import__("json").dumps(e)
    if not any(('"k": "%s"' % kk) in js_ for kk in ("poly", "mesh", "trans", "rot", "prod")):
        r = watched(lambda: U.build_far(e).volume(U.mk_params(names, rows)))
        tr["volfar"] = fxv(r[1], VS) if r[0] == "ok" else []
        tr["volfar_exc"] = "" if r[0] == "ok" else (r[1] if len(r) > 1 else "hang")
    # user-set volume overrides
    d2 = U.build(e)
    r = watched(lambda: (d2.set_volume(5.0), d2.volume(U.mk_params(names, rows)))[1])
    tr["uservol"] = fxv(r[1], VS) if r[0] == "ok" else []
    tr["uservol_exc"] = "" if r[0] == "ok" else (r[1] if len(r) > 1 else "hang")
    # ... and density sampling uses the user-set volume (count = ceil(d * 5))
    r = watched(lambda: len(d2.sample_random_uniform(d=2.0, params=U.mk_params(names, rows[:1]))), 6)
    tr["usercount"] = r[1] if r[0] == "ok" else -1
    tr["usercount_exc"] = "" if r[0] == "ok" else (r[1] if len(r) > 1 else "hang")
    # the same with the volume given as a TENSOR, and a history: density sampling twice, the volume asked after each
    d4 = U.build(e)

    def tensor_volume_history():
        d4.set_volume(torch.tensor(5.0))
        out = []
        for dd_ in (2.0, 3.0):
            n_ = len(d4.sample_random_uniform(d=dd_, params=U.mk_params(names, rows[:1])))
            out.append([n_] + fxv(d4.volume(U.mk_params(names, rows[:1])), VS))
        return out
    r = watched(tensor_volume_history, 8)
    tr["uservol_hist"] = r[1] if r[0] == "ok" else []
    tr["uservol_hist_exc"] = "" if r[0] == "ok" else (r[1] if len(r) > 1 else "hang")
    # a factor of a product gets a user-set volume AFTER the product's volume was asked: the product follows its factors
    tr["factorvol"], tr["factorvol_exc"] = [], "none"
    if e["k"] == "prod" and not (U.free_vars(e["l"]) & set(U.space_vars(e["r"]))):
        r = watched(lambda: (dom.domain_a.set_volume(3.0), dom.volume(U.mk_params(names, rows)))[1])
        tr["factorvol"] = fxv(r[1], VS) if r[0] == "ok" else []
        tr["factorvol_exc"] = "" if r[0] == "ok" else (r[1] if len(r) > 1 else "hang")
    # density sampling counts at one parameter row
    tr["counts"] = []
    row0 = rows[:1]
    p0 = U.mk_params(names, row0)
    for dn, dd in s.get("dens", []):
        for kind in ("random", "grid"):
            fn = dom.sample_random_uniform if kind == "random" else dom.sample_grid
            r = watched(lambda: len(fn(d=dn / dd, params=p0)), 6)
            tr["counts"].append({"dn": dn, "dd": dd, "kind": kind, "n": r[1] if r[0] == "ok" else -1,
                                 "exc": "" if r[0] == "ok" else (r[1] if len(r) > 1 else "hang")})
    # normalization layer (parameter-free expressions): images of lattice points
    tr["norm"] = []
    tr["norm_exc"] = "none"
    if not names and s.get("norm"):
        coords = c05.lattice(e, tid)
        pts = c05.to_points(e, coords)
        layer_ = []

        def first():
            layer_.append(tp.models.NormalizationLayer(dom))
            return layer_[0](pts).as_tensor.detach()
        r = watched(first)
        if r[0] == "ok":
            tr["norm_exc"] = ""
            tr["norm"] = [{"q": U.q_of(c, {}), "out": fxv(o, 256)} for c, o in zip(coords, r[1])]
            # the layer is a model: the same points presented with the variables in the opposite order (a sampler over I_t * A_x for a
            # layer built from A_x * I_t) give the same images
            vs_ = U.space_vars(e)
            if len(vs_) >= 2:
                def permuted():
                    sp2 = Space({})
                    for v in reversed(vs_):
                        sp2 = sp2 * Space({v: U.SPACES[v]})
                    data = torch.cat([pts.coordinates[v] for v in reversed(vs_)], dim=1)
                    return layer_[0](Points(data, sp2)).as_tensor.detach()          # the SAME layer object
                r2 = watched(permuted)
                tr["norm_perm_exc"] = "" if r2[0] == "ok" else (r2[1] if len(r2) > 1 else "hang")
                tr["norm_perm"] = [fxv(o, 256) for o in r2[1]] if r2[0] == "ok" else []
        else:
            tr["norm_exc"] = r[1] if len(r) > 1 else "hang"
    # partial evaluation
    if s.get("bind"):
        bind = {n: v for n, v in s["bind"].items() if n in names}
        rest = [n for n in names if n not in bind]
        pe = {"bind": {n: v * U.F for n, v in bind.items()}, "exc": ""}
        # the bound values are written as python floats or as one-element tensors of rank 0, 1 or 2
        form = pick(s["tid"], 4, 9)
        pe["form"] = form
        mkv = [float, lambda v: torch.tensor(float(v)), lambda v: torch.tensor([float(v)]), lambda v: torch.tensor([[float(v)]])][form]
        r = watched(lambda: dom(**{n: mkv(v) for n, v in bind.items()}))
        if r[0] != "ok":
            pe["exc"] = r[1] if len(r) > 1 else "hang"
        else:
            D2 = r[1]
            rrows = [{n: r_[n] for n in rest} for r_ in rows] if rest else []
            attr(D2, rest, rrows, pe)
            pe["prm"] = [{n: v * U.F for n, v in r_.items()} for r_ in rrows]
            # membership of D2 on the lattice, each point with its own remaining-parameter row
            coords = c05.lattice(e, tid)
            lrows = c05.rows_for(rest, len(coords), tid)
            pts = c05.to_points(e, coords)
            r2 = watched(lambda: D2._contains(pts, U.mk_params(rest, lrows)))
            if r2[0] == "ok":
                pe["bits"], pe["bits_ok"] = c05.bits_of(r2[1], len(coords))
                pe["pts"] = [U.q_of(c, dict(rw, **bind)) for c, rw in zip(coords, lrows)]
            else:
                pe["bits"], pe["bits_ok"], pe["pts"] = [], False, []
                pe["exc"] = "contains:" + (r2[1] if len(r2) > 1 else "hang")
            # samples of D2 at one remaining-parameter row
            srow = c05.rows_for(rest, 1, tid)[0] if rest else {}
            r3 = watched(lambda: D2.sample_random_uniform(n=12, params=U.mk_params(rest, [srow] if rest else [])), 6)
            pe["samples"], pe["samples_exc"] = [], ""
            if r3[0] == "ok":
                vs = U.space_vars(e)
                co = r3[1].coordinates
                for i in range(len(r3[1])):
                    pe["samples"].append(U.q_of({v: [float(x) for x in co[v][i]] for v in vs}, dict(srow, **bind)))
            else:
                pe["samples_exc"] = r3[1] if len(r3) > 1 else "hang"
            # normals of a boundary after binding, and of the original boundary at the same points with the joint rows
            pe["normals"], pe["normals_full"], pe["normals_exc"] = [], [], ""
            r5 = watched(lambda: dom.sample_random_uniform(n=8, params=U.mk_params(names, [dict(srow, **bind)] if names else [])), 6) \
                if e["k"] in ("bd", "bdl", "bdr") else ("skip",)
            if r5[0] == "ok" and len(r5[1]) > 0:          # points of the ORIGINAL boundary at the joint row
                spts, m_ = r5[1], len(r5[1])

                def nrm(D, nms, rw):
                    out = D.normal(spts, U.mk_params(nms, [rw] * m_) if nms else Points.empty())
                    return [[U.quant(x, 256) for x in rowv] for rowv in torch.as_tensor(out).detach().reshape(m_, -1).tolist()]
                ra_, rb_ = watched(lambda: nrm(D2, rest, srow)), watched(lambda: nrm(dom, names, dict(srow, **bind)))
                if ra_[0] == "ok" and rb_[0] == "ok":
                    pe["normals"], pe["normals_full"] = ra_[1], rb_[1]
                else:
                    pe["normals_exc"] = "after:%s/original:%s" % (ra_[1] if len(ra_) > 1 and ra_[0] != "ok" else ra_[0], rb_[1] if len(rb_) > 1 and rb_[0] != "ok" else rb_[0])
            # a user-set volume belongs to the domain: it survives the binding (primitives only)
            pe["uservol_pe"], pe["uservol_pe_exc"] = [], "none"
            if e["k"] in ("interval", "circle", "par", "tri", "sphere", "and", "union", "cut"):
                d3 = U.build(e)
                # (Boolean combinations: the volume is given as a FUNCTION of a variable that the call fixes)
                uv = 5.0
                if e["k"] in ("and", "union", "cut"):
                    ns_ = {}
                    exec("def uv(%s):\n    return 5.0 + 0.0 * %s\n" % (sorted(bind)[0], sorted(bind)[0]), ns_)
                    uv = ns_["uv"]
                r6 = watched(lambda: (d3.set_volume(uv), d3(**{n: float(v) for n, v in bind.items()}).volume(U.mk_params(rest, rrows)))[1])
                pe["uservol_pe"] = fxv(r6[1], VS) if r6[0] == "ok" else []
                pe["uservol_pe_exc"] = "" if r6[0] == "ok" else (r6[1] if len(r6) > 1 else "hang")
            # PlotSampler (plots and animations): it binds the other variables itself, plot_domain(**values), and samples the
            # evaluated domain and its boundary; only when nothing stays free, not for boundaries / products (no grids there)
            pe["plot"], pe["plot_exc"], pe["plot_cols_ok"] = [], "none", True
            if not rest and not any(('"k": "%s"' % kk) in __import__("json").dumps(e) for kk in ("bd", "bdl", "bdr", "prod", "point")):
                def plot():
                    ps = tp.samplers.PlotSampler(plot_domain=dom, n_points=30,
                                                 data_for_other_variables={n: float(v) for n, v in bind.items()})
                    first = ps.sample_points()
                    return first, ps.sample_points(), len(ps)
                r7 = watched(plot, 8)
                if r7[0] != "ok":
                    pe["plot_exc"] = r7[1] if len(r7) > 1 else "hang"
                else:
                    pp, again_, ln = r7[1]
                    pe["plot_exc"] = ""
                    vs = U.space_vars(e)
                    co = pp.coordinates
                    pe["plot_cols_ok"] = (all(n in co and bool((co[n] == float(v)).all()) for n, v in bind.items())
                                          and len(pp) == ln and len(again_) == ln and set(co) == set(vs) | set(bind))
                    for i in range(len(pp)):
                        pe["plot"].append(U.q_of({v: [float(x) for x in co[v][i]] for v in vs}, dict(bind)))
            # AnimationSampler: the one variable left free is the animation variable (frames over [0, 2]); the plot domain moves with it,
            # every frame's points lie in the domain at the frame's value and the bound values
            pe["anim"], pe["anim_exc"] = [], "none"
            # (not when the animation variable drives a quarter-turn rotation: the denotation knows whole quarter turns only)
            if len(rest) == 1 and not any(('"k": "%s"' % kk) in __import__("json").dumps(e) for kk in ("bd", "bdl", "bdr", "prod", "point")) \
                    and ('"an": "%s"' % rest[0]) not in __import__("json").dumps(e) and ('"an2": "%s"' % rest[0]) not in __import__("json").dumps(e):
                an = rest[0]

                def anim():
                    iv = tp.domains.Interval(Space({an: 1}), 0.0, 2.0)
                    a = tp.samplers.AnimationSampler(plot_domain=dom, animation_domain=iv, frame_number=3, n_points=20,
                                                     data_for_other_variables={n: float(v) for n, v in bind.items()})
                    ap = a.sample_animation_points()
                    return ap, a.sample_plot_domain_points(ap), a.plot_domain_constant
                r8 = watched(anim, 10)
                if r8[0] != "ok":
                    pe["anim_exc"] = r8[1] if len(r8) > 1 else "hang"
                else:
                    ap, frames, const = r8[1]
                    pe["anim_exc"] = "constant-plot-domain" if const or not isinstance(frames, list) else ""
                    if pe["anim_exc"] == "":
                        vs = U.space_vars(e)
                        for i, fr in enumerate(frames):
                            tv = float(ap.as_tensor[i, 0])
                            co = fr.coordinates
                            for j in range(len(fr)):
                                pe["anim"].append(U.q_of({v: [float(x) for x in co[v][j]] for v in vs}, dict(bind, **{an: tv})))
            # a SIBLING evaluation of the same original gets a user-set volume: neither the original nor D2 may see it
            # (polygons / polyhedra are constant: their __call__ hands back the same object by design, a volume set on it is shared)
            if not any(('"k": "%s"' % kk) in __import__("json").dumps(e) for kk in ("poly", "mesh")):
                watched(lambda: dom(**{n: float(v) for n, v in bind.items()}).set_volume(7.0))
            # the ORIGINAL domain evaluated at bound values + remaining rows: must agree with D2
            full = {}
            attr(dom, names, [dict(r_, **bind) for r_ in rows], full)
            pe["full"] = full
            # a second partial evaluation of the same original with other values must not affect D2
            bind2 = {n: (v + 1) % 3 for n, v in bind.items()}
            r4 = watched(lambda: dom(**{n: float(v) for n, v in bind2.items()}))
            again = {}
            attr(D2, rest, rrows, again)
            pe["stable"] = r4[0] == "ok" and all(again[k] == pe[k] for k in ("nv", "vol", "box"))
            # the original is unchanged
            t2 = {}
            attr(dom, names, rows, t2)
            # (the volume of a dependent product is a documented random estimate, it is not compared)
            # volume and box of a dependent product are documented random estimates: not compared
            keys = ("nv",) if '"prod"' in __import__("json").dumps(e) else ("nv", "vol", "box")
            pe["orig_same"] = all(t2[k] == tr[k] for k in keys)
        tr["pe"] = pe
    return tr


if __name__ == "__main__":
    main(run_one)

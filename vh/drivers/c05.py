"""C05 driver: membership bits of the real _contains for lattice query points (each with its own parameter row),
and of boundary objects for points of their own boundary sampler and for lattice points."""
import itertools, torch
import torchphysics as tp
from torchphysics.problem.spaces import Points, Space
from .common import main, watched, pick
from .. import universe as U

OFFS = [1, 3, 5, 7, 9, 11, 13, 15]


def lattice(e, tid):
    """query points: per space variable a coarse lattice over [-3.5, 3.5] with small odd fine-unit offsets"""
    vs = U.space_vars(e)
    axes = []
    for v in vs:
        d = U.SPACES[v]
        step = 128 if len(vs) == 1 and d <= 2 else (224 if d <= 2 or len(vs) == 1 else 320)
        for i in range(d):
            axes.append([x + OFFS[(tid + 3 * i + j) % 8] for j, x in enumerate(range(-896, 897, step))])
    pts = list(itertools.product(*axes))
    if len(pts) > 400:
        pts = pts[(tid % 3)::(len(pts) // 400 + 1)]
    out = []
    for p in pts:
        c, k = {}, 0
        for v in vs:
            c[v] = [x / U.F for x in p[k:k + U.SPACES[v]]]
            k += U.SPACES[v]
        out.append(c)
    return out


def rows_for(names, n, tid):
    combos = list(itertools.product([0, 1, 2], repeat=len(names)))
    return [dict(zip(names, combos[(i * 7 + tid) % len(combos)])) for i in range(n)]


def to_points(e, coords):
    vs = U.space_vars(e)
    sp = Space({})
    for v in vs:
        sp = sp * Space({v: U.SPACES[v]})
    data = torch.tensor([[x for v in vs for x in c[v]] for c in coords], dtype=torch.float32)
    return Points(data, sp)


def bits_of(r, n):
    t = r
    ok = isinstance(t, torch.Tensor) and list(t.shape) == [n, 1] and t.dtype == torch.bool
    if isinstance(t, torch.Tensor) and t.numel() == n:
        return [int(bool(v)) for v in t.reshape(-1)], ok
    return [], False


def run_one(s):
    e = s["expr"]
    tid = s["tid"]
    dom = U.build(e)
    names = sorted(U.free_vars(e))
    coords = lattice(e, tid)
    rows = rows_for(names, len(coords), tid)
    pts = to_points(e, coords)
    par = U.mk_params(names, rows)
    tr = {"pts": [U.q_of(c, r) for c, r in zip(coords, rows)], "bits": [], "shape_ok": False, "exc": "",
          "nv_ok": set(dom.necessary_variables) == set(names)}
    # what the OPERAND objects of a Boolean combination declare after the combination was built (they stay usable on their own)
    tr["nv_l"], tr["nv_r"], tr["nv_parts"] = [], [], False
    if e["k"] in ("union", "cut", "and"):
        tr["nv_l"], tr["nv_r"] = sorted(dom.domain_a.necessary_variables), sorted(dom.domain_b.necessary_variables)
        tr["nv_parts"] = True
    r = watched(lambda: dom._contains(pts, par))
    if r[0] != "ok":
        tr["exc"] = r[1] if len(r) > 1 else "hang"
    else:
        tr["bits"], tr["shape_ok"] = bits_of(r[1], len(coords))
    # the same query in the calling convention of __contains__: parameters as COLUMNS of the points, placed
    # before the domain's own variables
    tr["bits2"], tr["shape2_ok"], tr["exc2"] = [], True, ""
    if names:
        joined = par.join(pts)
        r = watched(lambda: dom._contains(joined))
        if r[0] != "ok":
            tr["exc2"] = r[1] if len(r) > 1 else "hang"
        else:
            tr["bits2"], tr["shape2_ok"] = bits_of(r[1], len(coords))
    # the same 2-D expression built over the product space x1 * x2, queried with the columns in the order (x2, x1): columns are
    # selected by NAME everywhere
    tr["bits3"], tr["shape3_ok"], tr["exc3"] = [], True, ""
    if U.space_vars(e) == ["x"] and pick(tid, 2, 1) == 0:
        def split_query():
            d3 = U.build_split(e)
            t = pts.as_tensor
            p3 = Points(torch.stack([t[:, 1], t[:, 0]], dim=1), Space({"x2": 1}) * Space({"x1": 1}))
            return d3._contains(p3, par)
        r = watched(split_query)
        if r[0] != "ok":
            tr["exc3"] = r[1] if len(r) > 1 else "hang"
        else:
            tr["bits3"], tr["shape3_ok"] = bits_of(r[1], len(coords))
    # the same expression 256 times larger (lengths, positions, parameter values), queried at the scaled points: membership does
    # not depend on the size of the shape
    tr["bits4"], tr["shape4_ok"], tr["exc4"] = [], True, ""
    if pick(tid, 2, 2) == 1:
        KS = 256.0

        def scaled_query():
            d4 = U.build_scaled(e, KS)
            p4 = Points(pts.as_tensor * KS, pts.space)
            q4 = Points(par.as_tensor * KS, par.space) if names else par
            return d4._contains(p4, q4)
        r = watched(scaled_query)
        if r[0] != "ok":
            tr["exc4"] = r[1] if len(r) > 1 else "hang"
        else:
            tr["bits4"], tr["shape4_ok"] = bits_of(r[1], len(coords))
    # history on the SAME Points / parameter objects: the coordinates are overwritten in place (public assignment) and the query
    # is repeated; the answer belongs to the current content
    tr["bits5"], tr["shape5_ok"], tr["exc5"], tr["pts5"] = [], True, "", []
    if pick(tid, 3, 3) == 0:
        coords5 = lattice(e, tid + 1)
        if len(coords5) == len(coords):
            def again():
                new = to_points(e, coords5)
                for v in U.space_vars(e):
                    pts[:, [v]] = new[:, [v]]
                return dom._contains(pts, par)
            r = watched(again)
            if r[0] != "ok":
                tr["exc5"] = r[1] if len(r) > 1 else "hang"
            else:
                tr["bits5"], tr["shape5_ok"] = bits_of(r[1], len(coords))
                tr["pts5"] = [U.q_of(c, r_) for c, r_ in zip(coords5, rows)]
            pts = to_points(e, coords)          # (the boundary queries below use the original lattice)
    # boundary object
    tr["bd"] = "none"
    if s.get("boundary"):
        rb = watched(lambda: dom.boundary)
        if rb[0] != "ok":
            tr["bd"] = "exc:" + (rb[1] if len(rb) > 1 else "hang")
            return tr
        bd = rb[1]
        tr["bd"] = "ok"
        tr["bexc"] = ""
        # (1) lattice points: far ones must be rejected
        r = watched(lambda: bd._contains(pts, par))
        if r[0] != "ok":
            tr["bexc"] = r[1] if len(r) > 1 else "hang"
            tr["bbits"], tr["bshape_ok"] = [], False
        else:
            tr["bbits"], tr["bshape_ok"] = bits_of(r[1], len(coords))
        # (2) the boundary's own samples (random and grid), one parameter row per call
        tr["own"] = []
        vs = U.space_vars(e)
        for j, (kind, n) in enumerate((("random", 24), ("grid", 16))):
            row = rows_for(names, 1, tid + j)[0]
            p1 = U.mk_params(names, [row])
            fn = bd.sample_random_uniform if kind == "random" else bd.sample_grid
            r = watched(lambda: fn(n=n, params=p1), 3)
            rec = {"kind": kind, "exc": "", "pts": [], "bits": []}
            if r[0] != "ok":
                rec["exc"] = r[1] if len(r) > 1 else "hang"
                tr["own"].append(rec)
                continue
            sp = r[1]
            m = len(sp)
            rp = U.mk_params(names, [row] * m)
            r2 = watched(lambda: bd._contains(sp, rp))
            if r2[0] != "ok":
                rec["exc"] = "contains:" + (r2[1] if len(r2) > 1 else "hang")
            else:
                rec["bits"], _ = bits_of(r2[1], m)
                t = sp.as_tensor
                k = 0
                cs = []
                for i in range(m):
                    c, k = {}, 0
                    for v in vs:
                        c[v] = [float(x) for x in t[i, k:k + U.SPACES[v]]]
                        k += U.SPACES[v]
                    cs.append(U.q_of(c, row))
                rec["pts"] = cs
            tr["own"].append(rec)
        # (2b) Boolean combinations: grid samples of the boundaries of the two OPERANDS, asked of the combination's boundary -- pieces of
        #      an operand's boundary that are far from the boundary of the result (inside the other operand, cut away, ...) are rejected
        tr["opnd"] = []
        if e["k"] in ("union", "cut", "and"):
            for side in ("l", "r"):
                row = rows_for(names, 1, tid + 3)[0]
                rec = {"side": side, "exc": "", "pts": [], "bits": []}

                def opnd():
                    ob = U.build(e[side]).boundary
                    sp = ob.sample_grid(n=24, params=U.mk_params(names, [row]))
                    sp = sp[:, list(dom.space.keys())] if set(dom.space.keys()) <= set(sp.space.keys()) else sp
                    return sp, bd._contains(sp, U.mk_params(names, [row] * len(sp)))
                r = watched(opnd, 4)
                if r[0] != "ok":
                    rec["exc"] = r[1] if len(r) > 1 else "hang"        # (not judged: the operand itself may be degenerate at this row)
                else:
                    sp, bits = r[1]
                    rec["bits"], _ = bits_of(bits, len(sp))
                    t = sp.as_tensor
                    cs = []
                    for i in range(len(sp)):
                        c, k = {}, 0
                        for v in vs:
                            c[v] = [float(x) for x in t[i, k:k + U.SPACES[v]]]
                            k += U.SPACES[v]
                        cs.append(U.q_of(c, row))
                    rec["pts"] = cs
                tr["opnd"].append(rec)
        # the same boundary 256 times larger: it accepts its own samples whatever the size of the shape (points scaled back for the oracle)
        if pick(tid, 2, 4) == 0:
            KS = 256.0
            row = rows_for(names, 1, tid + 5)[0]
            rec = {"kind": "random-scaled", "exc": "", "pts": [], "bits": []}

            def own_scaled():
                bS = U.build_scaled(e, KS).boundary
                pS = Points(torch.tensor([[float(row[n_]) * KS for n_ in names]], dtype=torch.float32), U.mk_params(names, [row]).space) if names else Points.empty()
                q = bS.sample_random_uniform(n=24, params=pS)
                rp_ = Points(pS.as_tensor.repeat(len(q), 1), pS.space) if names else Points.empty()
                return q, bS._contains(q, rp_)
            r = watched(own_scaled, 6)
            if r[0] != "ok":
                rec["exc"] = "scaled:" + (r[1] if len(r) > 1 else "hang")
            else:
                q, bb = r[1]
                rec["bits"], _ = bits_of(bb, len(q))
                co = q.coordinates
                rec["pts"] = [U.q_of({v: [float(x) / KS for x in co[v][i]] for v in vs}, row) for i in range(len(q))]
            tr["own"].append(rec)
    return tr


if __name__ == "__main__":
    main(run_one)

"""C11 driver: draw many points with the named sampling laws and log integer counts per coordinate box
(or raw fixed-point coordinates for boundary curves and Latin-hypercube samples)."""
import torch
import torchphysics as tp
from torchphysics.problem.spaces import Points
from .common import main, watched
from .. import universe as U


def boxes(t, lo, size, nb):
    """t: (N, d) tensor -> dict 'i,j,..' -> count, box index = floor((x - lo)/size) clipped to [-1, nb]"""
    idx = torch.floor((t.to(torch.float64) - lo) / size).to(torch.long).clamp(-1, nb)
    out = {}
    for row in idx.tolist():
        k = ",".join(str(v) for v in row)
        out[k] = out.get(k, 0) + 1
    return [{"b": [int(v) for v in k.split(",")], "n": n} for k, n in sorted(out.items())]


def run_one(s):
    e = s["expr"]
    law = s["law"]
    dom = U.build(e)
    names = sorted(U.free_vars(e))
    rows = s.get("rows") or [s.get("row") or {}]          # a batch of parameter rows; the points of row number `judge` are logged
    judge = s.get("judge") or 1
    rows = [{n: rw[n] for n in names} for rw in rows]
    row = rows[judge - 1]
    par = U.mk_params(names, rows if names else [])
    if s.get("boundary"):
        dom = dom.boundary
    N = s["N"]
    tr = {"prm": {k: v * U.F for k, v in row.items()}, "exc": "", "N": 0}
    vs = U.space_vars(e)

    def coords(p):          # all space variables, or only the one the scenario projects on (marginal laws of products)
        return torch.cat([p.coordinates[v] for v in ([s["proj"]] if s.get("proj") else vs)], dim=1).detach()

    made = {}

    def sampler(key, mk):          # ONE sampler object per law and scenario: earlier calls are history on the same object
        if key not in made:
            made[key] = mk()
        return made[key]

    def call(law, N):
        if law == "uniform":
            return watched(lambda: dom.sample_random_uniform(n=N, params=par), 20)
        if law == "uniform_d":
            return watched(lambda: dom.sample_random_uniform(d=s["d"], params=par), 20)
        if law == "grid":
            return watched(lambda: dom.sample_grid(n=N, params=par), 20)
        if law == "uniform_acc":       # many small random samples on the same object, accumulated (s["d"] calls of s["std"] points each)
            def acc_u():
                parts = [dom.sample_random_uniform(n=s["std"], params=par) for _ in range(s["d"])]
                out = parts[0]
                for q in parts[1:]:
                    out = out | q
                return out
            return watched(acc_u, 30)
        if law == "grid_acc":          # many small grids on the same object, accumulated (s["d"] calls of s["std"] points each)
            def acc():
                parts = [dom.sample_grid(n=s["std"], params=par) for _ in range(s["d"])]
                out = parts[0]
                for q in parts[1:]:
                    out = out | q
                return out
            return watched(acc, 30)
        if law == "gauss":
            smp = sampler(("gauss", N), lambda: tp.samplers.GaussianSampler(dom, n_points=N, mean=[m / 4.0 for m in s["mean"]], std=s["std"] / 4.0))
            return watched(lambda: smp.sample_points(par), 60)
        if law == "lhs":
            smp = sampler(("lhs", N), lambda: tp.samplers.LHSSampler(dom, n_points=N))
            return watched(lambda: smp.sample_points(par), 20)
        if law == "expint":
            smp = sampler(("expint", N), lambda: tp.samplers.ExponentialIntervalSampler(dom, n_points=N, exponent=(2 if s["std"] == 2 else 0.5)))
            return watched(lambda: smp.sample_points(par), 20)
        raise ValueError(law)
    for pre in s.get("pre") or []:          # earlier calls on the SAME domain object (history must not matter)
        call(pre["law"], pre["N"])
    r = call(law, N)
    if r[0] != "ok":
        tr["exc"] = r[1] if len(r) > 1 else "hang"
        return tr
    t = coords(r[1])
    if len(rows) > 1 and names:             # n points per parameter row, row-major: keep those of the judged row
        if law != "uniform_d" and len(t) != N * len(rows):
            tr["exc"] = "row-count"
            return tr
        per = len(t) // len(rows)
        t = t[(judge - 1) * per: judge * per]
    tr["N"] = len(t)
    if s["log"] == "boxes":
        tr["counts"] = boxes(t, float(s["lo"]), s["size"] / float(s["den"]), s["nb"])
    else:
        sc = 1048576 if law == "lhs" else 1024          # slab membership needs a finer fixed point
        tr["pts"] = [[U.quant(v, sc) for v in rowv] for rowv in t.tolist()]
    return tr


if __name__ == "__main__":
    main(run_one)

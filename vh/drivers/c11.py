"""C11 driver: draw many points with the named sampling laws and log integer counts per coordinate box
(or raw fixed-point coordinates for boundary curves and Latin-hypercube samples)."""
import torch
import torchphysics as tp
from torchphysics.problem.spaces import Points
from .common import main, watched
from .. import universe as U


def boxes(t, lo, size, nb):
    """t: (N, d) tensor -> dict 'i,j,..' -> count, box index = floor((x - lo)/size) clipped to [-1, nb]"""
    idx = torch.floor((t.to(torch.float64) - lo) / size).to(torch.long).clamp(-1, nb)
    out = {}
    for row in idx.tolist():
        k = ",".join(str(v) for v in row)
        out[k] = out.get(k, 0) + 1
    return [{"b": [int(v) for v in k.split(",")], "n": n} for k, n in sorted(out.items())]


def run_one(s):
    e = s["expr"]
    law = s["law"]
    dom = U.build(e)
    names = sorted(U.free_vars(e))
    row = s.get("row") or {}
    row = {n: row[n] for n in names}
    par = U.mk_params(names, [row] if names else [])
    if s.get("boundary"):
        dom = dom.boundary
    N = s["N"]
    tr = {"prm": {k: v * U.F for k, v in row.items()}, "exc": "", "N": 0}
    vs = U.space_vars(e)

    def coords(p):
        return torch.cat([p.coordinates[v] for v in vs], dim=1).detach()
    if law == "uniform":
        r = watched(lambda: dom.sample_random_uniform(n=N, params=par), 20)
    elif law == "uniform_d":
        r = watched(lambda: dom.sample_random_uniform(d=s["d"], params=par), 20)
    elif law == "grid":
        r = watched(lambda: dom.sample_grid(n=N, params=par), 20)
    elif law == "gauss":
        smp = tp.samplers.GaussianSampler(dom, n_points=N, mean=[m / 4.0 for m in s["mean"]], std=s["std"] / 4.0)
        r = watched(lambda: smp.sample_points(par), 30)
    elif law == "lhs":
        smp = tp.samplers.LHSSampler(dom, n_points=N)
        r = watched(lambda: smp.sample_points(par), 20)
    else:
        raise ValueError(law)
    if r[0] != "ok":
        tr["exc"] = r[1] if len(r) > 1 else "hang"
        return tr
    t = coords(r[1])
    tr["N"] = len(t)
    if s["log"] == "boxes":
        tr["counts"] = boxes(t, float(s["lo"]), s["size"] / float(s["den"]), s["nb"])
    else:
        sc = 1048576 if law == "lhs" else 1024          # slab membership needs a finer fixed point
        tr["pts"] = [[U.quant(v, sc) for v in rowv] for rowv in t.tolist()]
    return tr


if __name__ == "__main__":
    main(run_one)

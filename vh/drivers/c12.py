"""C12 driver: replay index expressions and table operations on real Points / Space objects and log the
operands (before and after) and the result of every step as plain tables of integer cell ids."""
import torch
import torchphysics as tp
from torchphysics.problem.spaces import Points, Space
from .common import main, watched, pick

NONE = -99


def mk_space(sp):
    s = Space({})
    for n, d in sp:
        s = s * Space({n: d})
    return s


def mk_points(t):
    return Points(torch.tensor(t["c"], dtype=torch.float64), mk_space(t["sp"]))


def _cell(v):
    """a cell as integer; non-finite values (a quotient by a zero cell) and huge ones become the sentinel 2^30 (such events are not judged)"""
    return int(round(v)) if v == v and abs(v) < 2 ** 30 else 2 ** 30


def tab(p):
    t = p.as_tensor.detach()
    return {"sp": [[k, int(v)] for k, v in p.space.items()], "sh": [int(v) for v in p.shape],
            "c": [[_cell(v) for v in row] for row in t.tolist()] if t.dim() == 2 else
                 [[[_cell(v) for v in row] for row in blk] for blk in t.tolist()] if t.dim() == 3 else "deep"}


def rsel(s, n_op):
    k = s["k"]
    if k == "int":
        return s["i"]
    if k == "slice":
        return slice(None if s["a"] == NONE else s["a"], None if s["b"] == NONE else s["b"], None if (s["s"] == 1 and n_op % 2) else s["s"])
    if k == "mask":
        return torch.tensor(s["m"], dtype=torch.bool)
    if k == "idx":
        return torch.tensor(s["ix"], dtype=torch.long)
    if k == "ell":
        return Ellipsis
    raise ValueError(k)


def csel(cs, n_op):
    k = cs["k"]
    if k == "name":
        return cs["n"]
    if k == "list":
        return tuple(cs["ns"]) if n_op % 2 else list(cs["ns"])
    if k == "nslice":
        return slice(cs["a"] or None, cs["b"] or None, cs.get("s") if cs.get("s") not in (None, 1) or n_op % 2 else None)
    return None


def index_of(op, n_op):
    parts = [rsel(s, n_op) for s in op["sels"]]
    c = csel(op["cs"], n_op)
    if c is not None:
        if not parts:
            parts = [Ellipsis] if n_op % 2 else [slice(None)]
        parts.append(c)
    if len(parts) == 1 and not (n_op % 3 == 0 and op["sels"] and op["sels"][0]["k"] in ("mask", "idx")):
        return parts[0]
    if not parts:
        return slice(None)
    return tuple(parts)


def run_one(s):
    heap = [mk_points(t) for t in s["tabs"]]
    ev = []
    # coordinates round trip on the initial tables, variables supplied in rotated order
    for k, p in enumerate(list(heap)):
        if len(p.shape) != 1:
            continue
        names = list(p.space.keys())
        names = names[k % len(names):] + names[:k % len(names)]
        co = p.coordinates
        r = watched(lambda: Points.from_coordinates({n: co[n].clone() for n in names}))
        e = {"a": "roundtrip", "names": names, "ins": [tab(p)], "ins_after": [tab(p)], "exc": ""}
        if r[0] == "ok":
            e["out"] = tab(r[1])
            back = r[1].coordinates
            e["back"] = {n: [[int(round(v)) for v in row] for row in back[n].tolist()] for n in back}
        else:
            e["exc"] = r[1] if len(r) > 1 else "hang"
        if len(names) >= 2:
            # coordinates of DIFFERENT dtypes, the smaller one first (an integer label column / float32 in front of float64
            # columns with a fractional part eps): every cell keeps its value (floor part and eps part are logged apart)
            kind = "int" if pick(s["tid"] + k, 2) == 0 else "f32"
            eps, dt = (0.25, torch.int64) if kind == "int" else (2.0 ** -20, torch.float32)
            d = {n: (co[n].clone().to(dt) if i == 0 else co[n].clone() + eps) for i, n in enumerate(names)}
            r2 = watched(lambda: Points.from_coordinates(d))
            if r2[0] == "ok":
                t2 = r2[1].as_tensor.detach().double()
                fl = torch.floor(t2)
                e["mixed"] = {"kind": kind, "exc": "", "c": [[_cell(v) for v in row] for row in fl.tolist()],
                              "frac": [[int(round(v / eps)) for v in row] for row in (t2 - fl).tolist()]}
            else:
                e["mixed"] = {"kind": kind, "exc": r2[1] if len(r2) > 1 else "hang"}
        ev.append(e)
    # equality is sensitive to variable order: same cells, variables relabelled in another order
    for p in list(heap):
        sp = [[k, int(v)] for k, v in p.space.items()]
        if len(p.shape) == 1 and len(sp) >= 2 and [d for _, d in sp] == [d for _, d in reversed(sp)]:
            q = Points(p.as_tensor.clone(), mk_space(list(reversed(sp))))
            r = watched(lambda: bool(p == q))
            e = {"a": "eq", "ins": [tab(p), tab(q)], "ins_after": [tab(p), tab(q)], "exc": ""}
            if r[0] == "ok":
                e["eq"] = r[1]
            else:
                e["exc"] = r[1] if len(r) > 1 else "hang"
            ev.append(e)
    views = set()
    for n_op, op in enumerate(s["ops"]):
        a = op["a"]
        t = heap[op["t"] - 1]
        u = heap[op["u"] - 1] if op["u"] else None
        if t is None or (op["u"] and u is None):      # operand is the result of a call that failed earlier
            if a not in ("set", "eq", "space", "badcat", "to", "iter") and len(heap) < 9:
                heap.append(None)
            continue
        ins = [t] + ([u] if u is not None else [])
        for x in ins:
            x.coordinates          # (the per-variable view is read before every step, as user code does)
        e = {"a": a, "op": op, "ins": [tab(x) for x in ins], "exc": "", "n": op["n"], "opname": op["op"]}
        # frame: the other tables of the heap.  Results of basic indexing and unsqueeze are VIEWS (torch semantics): they are
        # left out, and an assignment whose target is itself a view is not framed at all
        others = [x for x in heap if x is not None and all(x is not y for y in ins) and id(x) not in views]
        if a == "set" and id(t) in views:
            others = []
        e["others"] = [tab(x) for x in others]
        out = None
        if a == "get":
            idx = index_of(op, n_op)
            r = watched(lambda: t[idx])
        elif a == "set":
            sub = mk_space(s_sub(t, op["cs"]))
            base = 5000 + 10 * n_op
            v = Points(torch.tensor([[base + 100 * (r_ + 1) + (j + 1) for j in range(sub.dim)] for r_ in range(op["n"])],
                                    dtype=t.as_tensor.dtype).reshape(op["n"], sub.dim), sub)      # (the target's dtype: see the "to" event)
            e["v"] = tab(v)
            idx = index_of(op, n_op)
            if not isinstance(idx, tuple):
                idx = (idx,)

            def do():
                t[idx] = v
                return None
            r = watched(do)
        elif a == "join":
            r = watched(lambda: t.join(u))
        elif a in ("cat", "badcat"):
            r = watched(lambda: t | u)
        elif a == "repeat":
            r = watched(lambda: t.repeat(op["n"]))
        elif a == "repeat2":
            r = watched(lambda: t.repeat(op["n"] // 10, op["n"] % 10))
        elif a == "to":           # dtype conversion in place (Points.to returns the same object)
            r = watched(lambda: t.to(torch.float32 if op["n"] == 32 else torch.float64))
        elif a == "unsq":
            r = watched(lambda: t.unsqueeze(op["n"]))
        elif a == "arith":
            r = watched(lambda: {"add": lambda: t + u, "sub": lambda: t - u, "mul": lambda: t * u, "div": lambda: t / u, "pow": lambda: t ** u}[op["op"]]())
        elif a == "eq":
            r = watched(lambda: bool(t == u))
        elif a == "iter":
            r = watched(lambda: [tab(q) for q in t])
        elif a == "space":
            def sp():
                p = t.space * u.space
                return {"prod": [[k, int(v)] for k, v in p.items()], "contains": bool(u.space in t.space),
                        "dim": int(p.dim), "eqsp": bool(t.space == u.space)}
            r = watched(sp)
        else:
            raise ValueError(a)
        if r[0] != "ok":
            e["exc"] = r[1] if len(r) > 1 else "hang"
            if a not in ("set", "eq", "space", "badcat", "to", "iter") and len(heap) < 9:
                heap.append(None)
        elif a == "eq":
            e["eq"] = r[1]
        elif a == "iter":
            e["rows_out"] = r[1]
        elif a == "space":
            e.update(r[1])
        elif a == "badcat":
            e["out"] = tab(r[1])
        elif a == "to":
            e["dt"] = [str(t.as_tensor.dtype)] + [str(c.dtype) for c in t.coordinates.values()]
        elif a != "set":
            out = r[1]
            e["out"] = tab(out)
            if a in ("get", "unsq") or (ins and any(id(x) in views for x in ins) and a in ("get", "unsq")):
                views.add(id(out))
            if len(heap) < 9:
                heap.append(out)
        e["ins_after"] = [tab(x) for x in ins]
        e["others_after"] = [tab(x) for x in others]
        # the table re-assembled from the per-variable views (coordinates) of every operand: one object, two views
        e["ins_after_co"] = [tab(Points(torch.cat([x.coordinates[v] for v in x.space], dim=-1).to(torch.float64), x.space)) if x.space.dim > 0 and x.as_tensor.numel() > 0 else tab(x)
                             for x in ins]
        ev.append(e)
    return {"events": ev}


def s_sub(t, cs):
    sp = [[k, int(v)] for k, v in t.space.items()]
    if cs["k"] == "none":
        return sp
    if cs["k"] == "name":
        return [[cs["n"], dict(sp)[cs["n"]]]]
    if cs["k"] == "list":
        return [[n, dict(sp)[n]] for n in cs["ns"]]
    raise ValueError(cs["k"])


if __name__ == "__main__":
    main(run_one)

CONSTANTS NSteps = 4 CkMode = TRUE

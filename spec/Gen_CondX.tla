----------------------------- MODULE Gen_CondX -----------------------------
(* Scenario generation for the extended conditions (CondExt.tla).
   Mode "single": every single-condition configuration, evaluated at iterations 0, 0, 1.
   Mode "hist"  : histories over DeepONet conditions that share models and function sets, with the iteration number
                  moving like the Solver's (training evaluations carry the step number, validation carries None) and the
                  user fixing a branch input in between. *)
EXTENDS CondExt, TLC, Json, IOUtils, SequencesExt
CONSTANTS Mode, MaxOps
VARIABLES built, evs, step, hist
Z == [a |-> "", c |-> 0, kind |-> "", mid |-> 0, fs |-> 0, pts |-> <<>>, ipts |-> <<>>, rows |-> <<>>, res |-> "", g |-> <<2, -1>>,
      model |-> <<2, -1, 3>>, static |-> FALSE, rev |-> FALSE, order |-> "xt", it |-> 0, fids |-> <<>>, tgt |-> 0, norm |-> 2,
      root |-> 1, full |-> FALSE, k |-> 0, gt |-> FALSE, bs |-> 0, red |-> "mean"]
Ev(cid, it) == [Z EXCEPT !.a = "ev", !.c = cid, !.it = it]
Fix(mid, k) == [Z EXCEPT !.a = "fix", !.mid = mid, !.k = k]
Pidon(cid, mid, fs, pts, res, static, rev) ==
    [Z EXCEPT !.a = "con", !.c = cid, !.kind = "pidon", !.mid = mid, !.fs = fs, !.pts = pts, !.res = res, !.static = static, !.rev = rev]
DonData(cid, mid, fids, pts, res, norm, root, full, tgt) ==
    [Z EXCEPT !.a = "con", !.c = cid, !.kind = "dondata", !.mid = mid, !.fids = fids, !.pts = pts, !.res = res, !.norm = norm,
              !.root = root, !.full = full, !.tgt = tgt]
RowsA == <<<<1, 2>>, <<-1, 0>>, <<3, -2>>>>
Integro(cid, n, ipts, res, static, order, rev) ==
    [Z EXCEPT !.a = "con", !.c = cid, !.kind = "integro", !.rows = SubSeq(RowsA, 1, n), !.ipts = ipts, !.res = res, !.static = static,
              !.order = order, !.rev = rev]
Ritz(cid, n, static, order) == [Z EXCEPT !.a = "con", !.c = cid, !.kind = "ritz", !.rows = SubSeq(RowsA, 1, n), !.static = static, !.order = order]
Param(cid, kap) == [Z EXCEPT !.a = "con", !.c = cid, !.kind = "param", !.k = kap]
HpmS(cid, n, kap, static, order, rev) == [Z EXCEPT !.a = "con", !.c = cid, !.kind = "hpms", !.rows = SubSeq(RowsA, 1, n), !.k = kap, !.static = static,
                                                   !.order = order, !.rev = rev]
HpmD(cid, n, kap, bs, norm, root, full, order) == [Z EXCEPT !.a = "con", !.c = cid, !.kind = "hpmd", !.rows = SubSeq(RowsA, 1, n), !.k = kap, !.bs = bs,
                                                            !.norm = norm, !.root = root, !.full = full, !.order = order]
Sets1 == << <<<<1, 2>>, <<3, 1>>>>, <<<<4, 5>>>>, <<<<5, 3, 2>>, <<1, 4, 2>>>> >>
Three(c) == <<c, Ev(1, 0), Ev(1, 0), Ev(1, 1)>>
Single ==
    {[fsets |-> Sets1, ops |-> Three(Pidon(1, 1, fs, pts, res, st, rev))] :
        fs \in 1..3, pts \in {<<1, 3, 2>>, <<4>>}, res \in {"u_f", "u_g", "echo", "vec", "dut"}, st \in BOOLEAN, rev \in BOOLEAN}
    \* the general DeepONet condition with another reduction than the mean
    \cup {[fsets |-> Sets1, ops |-> Three([Pidon(1, 1, fs, pts, res, st, FALSE) EXCEPT !.red = rd])] :
        fs \in 1..3, pts \in {<<1, 3, 2>>, <<4>>}, res \in {"u_f", "vec"}, st \in BOOLEAN, rd \in {"sum", "max"}}
    \cup {[fsets |-> Sets1, ops |-> Three(DonData(1, 1, fids, pts, res, norm, root, full, tgt))] :
        fids \in {<<1, 2>>, <<3>>, <<2, 5, 4, 1>>}, pts \in {<<1, 3>>, <<4, 0, 2, 1>>}, res \in {"none", "ut1"}, norm \in 0..2, root \in 1..2,
        full \in BOOLEAN, tgt \in {1}}
    \cup {[fsets |-> Sets1, ops |-> Three(Integro(1, n, ipts, res, st, ord, rev))] :
        n \in {1, 3}, ipts \in {<<0, 1>>, <<2>>, <<0, 1, 4>>}, res \in {"int", "intvec", "intx", "intdx", "intdt"}, st \in BOOLEAN, ord \in {"xt", "tx"}, rev \in BOOLEAN}
    \cup {[fsets |-> Sets1, ops |-> Three(Ritz(1, n, st, ord))] : n \in {1, 3}, st \in BOOLEAN, ord \in {"xt", "tx"}}
    \cup {[fsets |-> Sets1, ops |-> Three(Param(1, kap))] : kap \in {1, 5}}
    \cup {[fsets |-> Sets1, ops |-> Three(HpmS(1, n, kap, st, ord, rev))] : n \in {1, 3}, kap \in {2, -1}, st \in BOOLEAN, ord \in {"xt", "tx"}, rev \in BOOLEAN}
    \cup {[fsets |-> Sets1, ops |-> Three(HpmD(1, n, kap, bs, norm, root, full, ord))] :
             n \in {1, 3}, kap \in {2}, bs \in {1, 2, 3}, norm \in 0..2, root \in 1..2, full \in BOOLEAN, ord \in {"xt", "tx"}}
    \* the data function g given as a TABLE (one tensor object with the values at the rows) shared by an integro condition and a
    \* Deep-Ritz condition / a second integro condition, all on static samplers over the same rows; both construction orders
    \cup {[fsets |-> Sets1, ops |-> IF fst THEN <<a, b, Ev(1, 0), Ev(2, 0), Ev(1, 0)>> ELSE <<b, a, Ev(2, 0), Ev(1, 0), Ev(2, 0)>>] :
             a \in {[Integro(1, 3, ipts, "int", TRUE, ord, FALSE) EXCEPT !.gt = TRUE] : ipts \in {<<0, 1>>, <<2>>}, ord \in {"xt", "tx"}},
             b \in {[Ritz(2, 3, TRUE, "xt") EXCEPT !.gt = TRUE], [Integro(2, 3, <<0, 1, 4>>, "int", TRUE, "xt", TRUE) EXCEPT !.gt = TRUE]}, fst \in BOOLEAN}
\* ---- histories
Cands == << Pidon(1, 1, 1, <<1, 3, 2>>, "u_f", FALSE, FALSE),
            Pidon(2, 1, 1, <<4, 0>>, "echo", FALSE, TRUE),
            Pidon(3, 1, 2, <<1, 3, 2>>, "u_f", FALSE, FALSE),
            Pidon(4, 2, 1, <<1, 3>>, "vec", FALSE, FALSE),
            DonData(5, 1, <<2, 5>>, <<1, 3>>, "none", 2, 1, FALSE, 1),
            Pidon(6, 1, 3, <<2, 0>>, "dut", TRUE, FALSE) >>
Init == built = {} /\ evs = [i \in 1..6 |-> 0] /\ step = 0 /\ hist = <<>>
Next == /\ Len(hist) < MaxOps
        /\ \/ \E i \in 1..6 : i \notin built /\ Cardinality(built) < 3 /\ built' = built \cup {i} /\ hist' = Append(hist, Cands[i]) /\ UNCHANGED <<evs, step>>
           \/ \E i \in built, it \in {step, None} : evs[i] < 3 /\ evs' = [evs EXCEPT ![i] = @ + 1] /\ hist' = Append(hist, Ev(i, it)) /\ UNCHANGED <<built, step>>
           \/ step < 2 /\ step' = step + 1 /\ UNCHANGED <<built, evs, hist>>
           \/ \E m \in 1..2, k \in {3} : built # {} /\ hist' = Append(hist, Fix(m, k)) /\ UNCHANGED <<built, evs, step>>
Spec == Init /\ [][Next]_<<built, evs, step, hist>>
Scenario == [fsets |-> Sets1, ops |-> hist]
Emit == (Len(hist) = MaxOps /\ \A i \in built : evs[i] >= 1) => TLCSet(2, TLCGet(2) \cup {Scenario})
Out == IF Mode = "single" THEN Single ELSE TLCGet(2)
Post == ndJsonSerialize(IOEnv.OUT_FILE, SetToSeq(Out)) /\ PrintT(<<"SCENARIOS", Cardinality(Out)>>)
ASSUME TLCSet(2, {})
==========================================================================

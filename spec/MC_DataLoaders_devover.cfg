SPECIFICATION Spec
CONSTANTS MaxN = 4 MaxB = 5 Dev = {"dl_unique_oversize"} Kinds = {"points","shared","unique"} SharedKnown = TRUE
INVARIANT SizeInv
INVARIANT CoverInv
INVARIANT LenInv
CHECK_DEADLOCK FALSE

---------------------------- MODULE Trace_CondX ----------------------------
(* Trace validation for the extended conditions (CondExt.tla): a stepping monitor over a recorded history of
   constructing conditions, evaluating them with iteration numbers, and fixing branch inputs by hand.  After every
   evaluation: the function set was (re)sampled exactly by the iteration rule, the residual received by name the values for
   THIS condition's current functions and own points, the loss is the documented reduction. *)
EXTENDS CondExt, TLC, TLCExt, Json, IOUtils
Traces == JsonDeserialize(IOEnv.TRACE_FILE)
VARIABLES tid, l, verdict, conds, fs
vars == <<tid, l, verdict, conds, fs>>
T == Traces[tid]
Ops == T.scenario.ops
Ev == T.events
Net == T.net
Bad(c) == IF verdict = "ok" THEN c \o "@" \o ToString(l) ELSE verdict
RatEq(q, num, den) == q[1] * den = num * q[2]
\* value of a received tensor at (i, j) of an (a x b) row grid, under the shapes that broadcast correctly
At(rec, i, j, a, b) ==
    IF rec.shape = <<a, b, 1>> THEN rec.v[(i - 1) * b + j]
    ELSE IF rec.shape = <<1, b, 1>> \/ rec.shape = <<b, 1>> THEN rec.v[j]
    ELSE IF rec.shape = <<a, 1, 1>> /\ b = 1 THEN rec.v[i]
    ELSE IF rec.shape = <<>> \/ rec.shape = <<1>> \/ rec.shape = <<1, 1>> THEN rec.v[1]
    ELSE -99999
ShapeOK(rec, a, b) == rec.shape \in {<<a, b, 1>>, <<1, b, 1>>, <<b, 1>>, <<>>, <<1>>, <<1, 1>>}
PidonClause(c, e, fids) ==
    LET nF == Len(fids)  n == Len(c.pts) IN
    IF DOMAIN e.recv # PidonNeeds(c.res) THEN "residual-argument-names"
    ELSE IF \E nm \in PidonNeeds(c.res) : ~ShapeOK(e.recv[nm], nF, n) THEN "residual-argument-shape"
    ELSE IF e.recv["u"].shape # <<nF, n, 1>> THEN "model-output-shape"
    ELSE IF \E nm \in PidonNeeds(c.res), i \in 1..nF, j \in 1..n : At(e.recv[nm], i, j, nF, n) # PidonArg(c, Net, fids, nm, i, j)
         THEN "residual-arguments:" \o (CHOOSE nm \in PidonNeeds(c.res) : \E i \in 1..nF, j \in 1..n : At(e.recv[nm], i, j, nF, n) # PidonArg(c, Net, fids, nm, i, j))
    ELSE IF c.red = "sum" /\ ~RatEq(e.loss, PidonLossTimesN(c, Net, fids), 1) THEN "loss-value(reduce_fn = sum)"
    ELSE IF c.red = "max" /\ ~RatEq(e.loss, MaxS(PidonErrs(c, Net, fids)), 1) THEN "loss-value(reduce_fn = max)"
    ELSE IF c.red = "mean" /\ ~RatEq(e.loss, PidonLossTimesN(c, Net, fids), nF * n) THEN "loss-value"
    ELSE "ok"
DonClause(c, e) ==
    LET D == DonDist(c, Net)  N == Len(D)
        q == IF c.root = 1 THEN e.loss ELSE e.loss2
    IN IF c.res = "ut1" /\ DOMAIN e.recv # {"u", "t"} THEN "constrain-argument-names"
       ELSE IF c.res = "ut1" /\ \E i \in DOMAIN c.fids, j \in DOMAIN c.pts :
                   \/ At(e.recv["u"], i, j, Len(c.fids), Len(c.pts)) # Net[c.mid][c.fids[i]][c.pts[j] + 1]
                   \/ At(e.recv["t"], i, j, Len(c.fids), Len(c.pts)) # c.pts[j] THEN "constrain-arguments"
       ELSE IF c.norm = 0 THEN (IF RatEq(q, MaxS(D), 1) THEN "ok" ELSE "loss-value")
       ELSE IF RatEq(q, SumS([k \in 1..N |-> Pow(D[k], c.norm)]), N) THEN "ok" ELSE "loss-value"
IntShape(nm, n, ni) == IF nm = "u_integral" THEN <<n, ni, 1>> ELSE IF nm = "x_integral" THEN <<1, ni, 1>> ELSE <<n, 1, 1>>
\* shapes that combine row by row with the model output (n,1,1): the documented one, or one row given without the middle axis
IntShapeOK(sh, nm, n, ni) == sh = IntShape(nm, n, ni) \/ (n = 1 /\ nm \notin {"u_integral", "x_integral"} /\ sh \in {<<1, 1>>, <<1>>, <<>>})
IntClause(c, e) ==
    LET n == Len(c.rows)  ni == Len(c.ipts) IN
    IF DOMAIN e.recv # IntNeeds(c.res) THEN "residual-argument-names"
    ELSE IF \E nm \in IntNeeds(c.res) : ~IntShapeOK(e.recv[nm].shape, nm, n, ni) THEN "residual-argument-shape:" \o (CHOOSE nm \in IntNeeds(c.res) : ~IntShapeOK(e.recv[nm].shape, nm, n, ni))
    ELSE IF \E nm \in IntNeeds(c.res) \ {"u_integral", "x_integral"}, r \in 1..n : e.recv[nm].v[r] # IntArg(c, nm, r, 1) THEN "residual-arguments"
    ELSE IF "u_integral" \in IntNeeds(c.res) /\ \E r \in 1..n, j \in 1..ni : e.recv["u_integral"].v[(r - 1) * ni + j] # IntArg(c, "u_integral", r, j) THEN "model-on-integral-points"
    ELSE IF "x_integral" \in IntNeeds(c.res) /\ \E j \in 1..ni : e.recv["x_integral"].v[j] # c.ipts[j] THEN "integral-points"
    ELSE IF ~RatEq(e.loss, IntLossTimesN(c), n) THEN "loss-value"
    ELSE "ok"
RitzClause(c, e) ==
    LET n == Len(c.rows) IN
    IF DOMAIN e.recv # {"u", "g"} THEN "residual-argument-names"
    ELSE IF e.recv["u"].v # [r \in 1..n |-> UA(c, c.rows[r][1], c.rows[r][2])] \/ e.recv["g"].v # [r \in 1..n |-> G(c, c.rows[r][2])] THEN "residual-arguments"
    ELSE IF ~RatEq(e.loss, RitzTimesN(c), n) THEN "loss-value"
    ELSE "ok"
HpmSClause(c, e) ==
    LET n == Len(c.rows) IN
    IF DOMAIN e.recv # {"x", "t", "kappa", "g"} THEN "residual-argument-names"
    ELSE IF \/ e.recv["x"].v # [r \in 1..n |-> c.rows[r][1]] \/ e.recv["t"].v # [r \in 1..n |-> c.rows[r][2]]
            \/ e.recv["g"].v # [r \in 1..n |-> G(c, c.rows[r][2])] \/ e.recv["kappa"].v # <<c.k>> THEN "residual-arguments"
    ELSE IF ~RatEq(e.loss, HpmSTimesN(c), n) THEN "loss-value"
    ELSE "ok"
\* k-th evaluation of the condition: the residual's last call saw the rows of the batch it ended on; the loss is the documented aggregate
HpmDClause(c, e, k) ==
    LET B == HpmNB(c)
        last == IF c.full THEN B ELSE ((k - 1) % B) + 1
        rows == [i \in 1..Cardinality(HpmBatch(c, last)) |-> (last - 1) * c.bs + i]
        q == IF c.root = 1 THEN e.loss ELSE e.loss2
        v == HpmDValue(c, k)
    IN IF DOMAIN e.recv # {"x", "t", "kappa"} THEN "residual-argument-names"
       ELSE IF e.ncalls # (IF c.full THEN B ELSE 1) THEN "batches-per-evaluation"
       ELSE IF \/ e.recv["x"].v # [i \in DOMAIN rows |-> c.rows[rows[i]][1]] \/ e.recv["t"].v # [i \in DOMAIN rows |-> c.rows[rows[i]][2]]
               \/ e.recv["kappa"].v # <<c.k>> THEN "residual-arguments"
       ELSE IF ~RatEq(q, v[1], v[2]) THEN "loss-value"
       ELSE "ok"
ParamClause(c, e) ==
    IF DOMAIN e.recv # {"kappa"} \/ e.recv["kappa"].v # <<c.k>> THEN "residual-arguments"
    ELSE IF ~RatEq(e.loss, (c.k - 3) * (c.k - 3), 1) THEN "loss-value" ELSE "ok"
Init == /\ tid \in 1..Len(Traces) /\ l = 1 /\ conds = [i \in 1..6 |-> [kind |-> "none"]]
        /\ fs = [i \in 1..3 |-> FSInit]
        /\ verdict = (IF "driver_error" \in DOMAIN Traces[tid] THEN "driver-error" ELSE "ok")
Step == /\ l <= Len(Ev) /\ l' = l + 1 /\ tid' = tid
        /\ LET op == Ops[l]  e == Ev[l] IN
           IF op.a = "con"
           THEN /\ conds' = [conds EXCEPT ![op.c] = op] /\ UNCHANGED fs
                /\ verdict' = (IF e.exc # "" THEN Bad("construction-failed:" \o e.exc) ELSE verdict)
           ELSE IF op.a = "fix"
           THEN /\ UNCHANGED <<conds, fs>>
                /\ verdict' = (IF e.exc # "" THEN Bad("fix-branch-input-failed:" \o e.exc) ELSE verdict)
           ELSE LET c == conds[op.c] IN
                IF c.kind = "pidon"
                THEN LET f2 == FSTouch(fs[c.fs], op.it)
                         fids == Batch(T.scenario.fsets[c.fs], f2.count)
                     IN /\ fs' = [fs EXCEPT ![c.fs] = [count |-> e.counts[c.fs], iter |-> f2.iter]]      \* resynchronise on the observation
                        /\ UNCHANGED conds
                        /\ verdict' = (IF e.exc # "" THEN Bad("evaluation-failed:" \o e.exc)
                                       ELSE IF e.counts[c.fs] # f2.count THEN Bad("function-set-sampling-rule")
                                       ELSE LET cl == PidonClause(c, e, fids) IN IF cl # "ok" THEN Bad(cl) ELSE verdict)
                ELSE /\ UNCHANGED <<conds, fs>>
                     /\ verdict' = (IF e.exc # "" THEN Bad("evaluation-failed:" \o e.exc)
                                    ELSE LET cl == CASE c.kind = "dondata" -> DonClause(c, e) [] c.kind = "integro" -> IntClause(c, e)
                                                     [] c.kind = "ritz" -> RitzClause(c, e) [] c.kind = "param" -> ParamClause(c, e)
                                                     [] c.kind = "hpms" -> HpmSClause(c, e)
                                                     [] c.kind = "hpmd" -> HpmDClause(c, e, Cardinality({i \in 1..l : Ops[i].a = "ev" /\ Ops[i].c = op.c}))
                                         IN IF cl # "ok" THEN Bad(cl) ELSE verdict)
Next == Step
Fin == (l = Len(Ev) + 1) =>
          /\ TLCSet(1, TLCGet(1) \cup {tid})
          /\ (verdict = "ok" \/ PrintT(<<"REJ", T.tid, verdict, "">>))
Post == PrintT(<<"VALIDATED", Cardinality(TLCGet(1))>>)
ASSUME TLCSet(1, {})
==========================================================================

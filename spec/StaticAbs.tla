----------------------------- MODULE StaticAbs -----------------------------
(* Property C15, static part, as a state machine over what a caller can observe.
   Point sets are ids: a fresh draw gets the next unused id (nfresh + 1).
     cur   id of the set currently being served (0 = nothing drawn yet)
     run   number of consecutive uses of cur so far (the drawing call counts as use 1)
     rrun  uses of cur since the last re-staticising (= run if there was none)
   "identical set until the interval has elapsed - exactly that many consecutive uses - then a fresh set":
     a cached answer is allowed only while the interval has not elapsed,
     a fresh draw only once it has.  After Restatic(iv) the text does not say whether the run in
     progress is measured from the draw or from the re-staticising, so both readings are allowed
     (cached while rrun < interval; fresh once run >= interval).
   A non-static sampler is the machine with interval = 1 and no Restatic.                       *)
EXTENDS Integers
CONSTANTS Inf
VARIABLES interval, cur, run, rrun, nfresh, ret
avars == <<interval, cur, run, rrun, nfresh, ret>>

AInit(iv) == interval = iv /\ cur = 0 /\ run = 0 /\ rrun = 0 /\ nfresh = 0 /\ ret = 0

CachedOK == cur # 0 /\ rrun < interval
FreshOK  == cur = 0 \/ run >= interval

ServeCached == /\ CachedOK
               /\ ret' = cur /\ run' = run + 1 /\ rrun' = rrun + 1
               /\ UNCHANGED <<interval, cur, nfresh>>
ServeFresh  == /\ FreshOK
               /\ nfresh' = nfresh + 1 /\ cur' = nfresh + 1 /\ ret' = nfresh + 1
               /\ run' = 1 /\ rrun' = 1
               /\ UNCHANGED interval
Serve == ServeCached \/ ServeFresh

\* next(sampler): the property does not say whether peeking is a "use"; both are allowed
Peek == \/ /\ cur # 0 /\ ret' = cur /\ UNCHANGED <<interval, cur, run, rrun, nfresh>>
        \/ Serve

Restatic(iv) == /\ interval' = iv /\ rrun' = 0
                /\ UNCHANGED <<cur, run, nfresh, ret>>
=============================================================================

----------------------------- MODULE Gen_C08 -----------------------------
(* Scenario generation for C08: model ASTs x presentations (order of the input variables, choice and order of rows
   from a pool of 6 named rows, flat or two-axis batch arrangement, a presentation lacking a variable). *)
EXTENDS Models, TLC, Json, IOUtils, SequencesExt
CONSTANTS NPres
X == <<"x", 2>>  T == <<"t", 1>>  K == <<"k", 1>>  Z == <<"z", 1>>  U == <<"u", 1>>  V == <<"v", 2>>  W == <<"w", 2>>
Leaf(kind, ins, out) == [k |-> "leaf", kind |-> kind, ins |-> ins, out |-> out, ms |-> <<>>]
Seqm(ms) == [k |-> "seq", kind |-> "", ins |-> <<>>, out |-> <<>>, ms |-> ms]
Parm(ms) == [k |-> "par", kind |-> "", ins |-> <<>>, out |-> <<>>, ms |-> ms]
Kinds == {"fcn", "harmonic", "poly", "qres", "deepritz"}
Leaves == {Leaf(kd, ins, <<U>>) : kd \in Kinds, ins \in {<<X, T>>, <<T, X>>, <<X, T, K>>, <<K, X>>}}
\* four input variables (orderings that keep the first and the last column in place), residual polynomial networks
Leaves4 == {Leaf(kd, <<K, X, T, Z>>, <<U>>) : kd \in {"fcn", "qres"}} \cup {Leaf(kd, <<X, T>>, <<U>>) : kd \in {"polyres", "polyres3"}}
           \cup {Parm(<<Leaf("fcn", <<X, K, Z>>, <<U>>), Leaf("fcn", <<Z, T, X>>, <<V>>)>>)}
Leaves1 == {Leaf(kd, <<X>>, <<U>>) : kd \in Kinds} \cup {Leaf("fcn", <<T>>, <<V>>)}          \* one input variable
\* the library's own activation functions (relu^n with different n in one network, adaptive, sinus)
LeavesA == {Leaf(kd, <<X, T>>, <<U>>) : kd \in {"fcn_relun", "fcn_adaptive", "fcn_sinus", "deepritz2", "deepritz1"}}
           \cup {Seqm(<<Leaf("fcn_relun", <<X, T>>, <<W>>), Leaf("fcn_adaptive", <<W>>, <<U>>)>>)}
Models == Leaves \cup Leaves4 \cup Leaves1 \cup LeavesA
    \cup {Seqm(<<Leaf("norm", <<X>>, <<X>>), Leaf(kd, <<X>>, <<U>>)>>) : kd \in {"fcn", "harmonic"}}
    \cup {Seqm(<<Leaf(k1, <<X, T>>, <<W>>), Leaf(k2, <<W>>, <<U>>)>>) : k1 \in {"fcn", "qres"}, k2 \in {"fcn", "deepritz", "poly"}}
    \cup {Parm(<<Leaf(k1, <<X, T>>, <<U>>), Leaf(k2, <<T, K>>, <<V>>)>>) : k1 \in {"fcn", "qres", "poly"}, k2 \in {"fcn", "harmonic"}}
    \cup {Parm(<<Leaf("fcn", <<K, T>>, <<V>>), Seqm(<<Leaf("qres", <<T, X>>, <<W>>), Leaf("fcn", <<W>>, <<U>>)>>)>>)}
    \cup {Seqm(<<Parm(<<Leaf("fcn", <<X>>, <<W>>), Leaf("qres", <<T, X>>, <<U>>)>>), Leaf("deepritz", <<U, W>>, <<V>>)>>)}
Perms(S) == {s \in [1..Cardinality(S) -> S] : \A i, j \in 1..Cardinality(S) : i # j => s[i] # s[j]}
RowSeqs == {<<1, 2, 3, 4>>, <<4, 2, 6, 1>>, <<3, 3, 5, 1>>, <<6, 5, 4, 3, 2, 1>>, <<2>>, <<5, 1>>, <<1>>, <<3>>, <<4>>, <<6>>}          \* (every row also alone)
Pres(m) == LET names == {Names(InSpace(m))[i] : i \in DOMAIN InSpace(m)} IN
           {[order |-> o, rows |-> r, axes |-> a, drop |-> ""] : o \in Perms(names), r \in RowSeqs, a \in {1}}
           \cup {[order |-> o, rows |-> <<4, 2, 6, 1>>, axes |-> 2, drop |-> ""] : o \in Perms(names)}
           \cup {[order |-> SetToSeq(names \ {d}), rows |-> <<1, 2>>, axes |-> 1, drop |-> d] : d \in names}
           \* the variable d is missing, a variable of ANOTHER name with the same number of columns is there instead
           \cup {[order |-> [i \in DOMAIN o |-> IF o[i] = d THEN d \o "_other" ELSE o[i]], rows |-> <<1, 2>>, axes |-> 1, drop |-> d]
                    : d \in names, o \in {SetToSeq(names)}}
Scen == {[model |-> m, pres |-> SetToSeq(Pres(m)), ins |-> InSpace(m), outs |-> OutSpace(m)] : m \in Models}
ASSUME ndJsonSerialize(IOEnv.OUT_FILE, SetToSeq(Scen)) /\ PrintT(<<"SCENARIOS", Cardinality(Scen)>>)
==========================================================================

----------------------------- MODULE Gen_Attr -----------------------------
(* Scenario generation for the derived attributes (C10 volume, C17 partial evaluation, C18 bounding box):
   primitives, their boundaries, transforms, independent products, unions DECLARED disjoint and cuts DECLARED
   contained (only pairs for which TLC verifies the declaration on a lattice at every parameter row), plus the
   general depth-1 expressions of Gen_Geo.  Each expression comes with three parameter rows, a binding for
   partial evaluation (every non-empty subset of its free variables) and densities. *)
EXTENDS Gen_Geo
Pt == [k |-> "point", v |-> "x", p |-> V2(4, 4)]
PtT == [k |-> "point", v |-> "x", p |-> <<A1(0, "t"), A0(-4)>>]
Bd(d) == [k |-> "bd", d |-> d]
Thin == {Par(V2(-10, -2), V2(10, -2), V2(-10, -1)), Par(<<A1(-8, "t"), A0(-4)>>, <<A1(-7, "t"), A0(-4)>>, <<A1(-8, "t"), A0(8)>>)}     \* aspect ratios 20 and 12
\* the origin moves while the other corners stay: position and shape change together
Shear == {Par(<<A1(0, "t"), A0(0)>>, V2(12, 0), V2(4, 4)), Tri(<<A1(-8, "k"), A0(-4)>>, V2(8, -4), V2(0, 8))}
\* whole-number centres / corners with fractional radius (the driver also hands them over as integer tensors)
IntPos == {Cir(V2(4, -8), A0(2)), Cir(V2(0, 0), A0(6)), [k |-> "sphere", v |-> "y", c |-> <<A0(4), A0(0), A0(-4)>>, r |-> A0(2)], Par(V2(-8, -4), V2(4, -4), V2(-8, 4))}
Basics == IntPos \cup Prims2 \cup Ints \cup {Sph, SphT, Pt, PtT} \cup Thin \cup Shear \cup Polys \cup Meshes \cup {MeshBox}
Bds == {Bd(p) : p \in Prims2 \cup Ints \cup {Sph, SphT} \cup Polys \cup Meshes} \cup {[k |-> "bdl", d |-> i] : i \in Ints} \cup {[k |-> "bdr", d |-> i] : i \in Ints}
Envs == {[t |-> a, k |-> b] : a \in 0..2, b \in 0..2}
Lat2 == {-896 + 96 * i + 7 : i \in 0..18}
EnvsOf(a, b) == IF FreeVars(a) \cup FreeVars(b) = {} THEN {[t |-> 0, k |-> 0]} ELSE Envs
QAt(env, x, y) == [val |-> [nm \in {"x", "t", "k"} |-> IF nm = "x" THEN <<x, y>> ELSE <<env[nm] * F>>], w |-> 1]
DisjointOn(a, b) == \A env \in EnvsOf(a, b) : \A p \in Lat2 \X Lat2 : ~(In(a, QAt(env, p[1], p[2])) /\ In(b, QAt(env, p[1], p[2])))
ContainedOn(b, a) == \A env \in EnvsOf(a, b) : \A p \in Lat2 \X Lat2 : In(b, QAt(env, p[1], p[2])) => In(a, QAt(env, p[1], p[2]))
Small2 == {p \in Prims2 : FreeVars(p) = {}} \cup Polys
DisjU == {[k |-> "union", l |-> a, r |-> b, disjoint |-> TRUE] : a \in Small2, b \in {Tr(q, V2(-12, -12)) : q \in Small2}}
         \cup {[k |-> "union", l |-> Par(V2(4, 4), V2(8, 4), V2(4, 8)), r |-> Cir(<<A0(-8), A1(-8, "t")>>, A1(1, "k")), disjoint |-> TRUE]}   \* parameter-dependent, declared disjoint
         \* untranslated operands with curved / slanted first operands (the declaration may select another code path in the boundary)
         \cup {[k |-> "union", l |-> a, r |-> b, disjoint |-> TRUE] :
                  a \in {Cir(V2(-6, -6), A0(5)), Par(V2(-11, -8), V2(-3, -6), V2(-13, 0)), Tri(V2(-10, -10), V2(-2, -8), V2(-8, -2))},
                  b \in {Par(V2(2, 0), V2(10, 2), V2(0, 8)), Cir(V2(6, 5), A0(5)), Tri(V2(2, 2), V2(11, 4), V2(4, 11))}}
ContC == {[k |-> "cut", l |-> a, r |-> b, contained |-> TRUE] : a \in {Par(V2(-12, -12), V2(12, -12), V2(-12, 12))}, b \in Small2}
         \cup {[k |-> "cut", l |-> Cir(V2(0, 0), A1(8, "k")), r |-> Cir(<<A0(1), A0(0)>>, A0(6)), contained |-> TRUE]}
Transf == {Tr(a, t) : a \in PrimsG \cup {Bd(p) : p \in PrimsG}, t \in TransVecs}
          \* a constant translation of a parameter-driven translation, and the other nesting order
          \cup {Tr(Tr(a, <<A1(0, "t"), A0(2)>>), V2(4, -2)) : a \in {Par(V2(0, 0), V2(8, 0), V2(0, 8)), Cir(V2(0, 0), A0(6))}}
          \cup {Tr(Tr(a, V2(-3, 5)), <<A1(-4, "k"), A1(-4, "t")>>) : a \in {Par(V2(0, 0), V2(8, 0), V2(0, 8))}}
          \cup {Ro(a, m, p) : a \in PrimsG \cup {Bd(q) : q \in PrimsG}, m \in {"r90", "p345", "p51213"}, p \in RotPts}
TransfQ == RotQ1 \cup RotQ2 \cup Rot3D1 \cup {Roq(Bd(p), an, V2(2, -4)) : p \in {Par(V2(-8, -6), V2(4, -2), V2(-4, 6)), Cir(<<A1(-4, "t"), A0(0)>>, A1(2, "k")), Poly(<<RingL>>)}, an \in {"t", "k"}}
           \cup {Ro3(Bd(p), m, V3(2, -4, 2)) : p \in {MeshBox, Sph}, m \in {"z345", "zx"}}
Prods == {Pr(a, i) : a \in PrimsG, i \in Ints} \cup {Pr(i, m) : i \in Ints, m \in {MeshTet}} \cup {Pr(i, [k |-> "interval", v |-> "z", lo |-> A0(0), hi |-> A0(6)]) : i \in Ints}
\* intersections of two products over (x, u): the first one gets a user-set bounding box in the history the driver runs
IU(a, b) == [k |-> "interval", v |-> "u", lo |-> A0(a), hi |-> A0(b)]
ProdAnd == {An(Pr(a, IU(-4, 6)), Pr(b, IU(0, 4))) : a \in {Cir(V2(0, 0), A0(6)), Par(V2(0, 0), V2(8, 0), V2(0, 8))}, b \in {Cir(V2(4, -2), A0(4)), Par(V2(-8, -6), V2(4, -2), V2(-4, 6))}}
AttrExprs == IF Mode = "vol" THEN Basics \cup Bds \cup Transf \cup TransfQ \cup Prods \cup {u \in DisjU : DisjointOn(u.l, u.r)} \cup {c \in ContC : ContainedOn(c.r, c.l)}
             ELSE Basics \cup Bds \cup Transf \cup TransfQ \cup Prods \cup {x \in Depth1 : x.k \notin {"union", "cut", "and"} \/ x.l # x.r}
                  \cup PolyD1 \cup MeshD1 \cup ProdAnd
                  \cup {u \in DisjU : FreeVars(u) # {} /\ DisjointOn(u.l, u.r)} \cup {c \in ContC : FreeVars(c) # {} /\ ContainedOn(c.r, c.l)}
Rows == <<[t |-> 0, k |-> 1], [t |-> 2, k |-> 0], [t |-> 1, k |-> 2]>>
BindVals == <<[t |-> 1, k |-> 2], [t |-> 2, k |-> 0]>>
Subsets(S) == (SUBSET S) \ {{}}
Scen == UNION {
          IF FreeVars(x) = {} THEN {[expr |-> x, rows |-> Rows, bind |-> <<>>, dens |-> <<<<1, 2>>, <<3, 1>>, <<7, 1>>>>, norm |-> TRUE]}
          ELSE {[expr |-> x, rows |-> Rows, bind |-> [nm \in S |-> BindVals[j][nm]], dens |-> <<<<1, 2>>, <<3, 1>>>>, norm |-> FALSE] :
                    S \in Subsets(FreeVars(x) \cap {"t", "k"}), j \in 1..2}
          : x \in AttrExprs}
PostA == ndJsonSerialize(IOEnv.OUT_FILE, SetToSeq(Scen)) /\ PrintT(<<"SCENARIOS", Cardinality(Scen)>>)
=============================================================================

------------------------------- MODULE Fourier -------------------------------
(* Fourier layers / FNO (models/FNO.py, property C20) on recorded fields in fixed point.
   A field is a nested sequence  u[b][n1]([n2])[c]  (batch, one or two spatial axes, channels) of integers.
     Shift      circular shift along the spatial axes:  Shift(u, s)[b][n] = u[b][(n - s) mod N]
     Refine     nodes of a coarse uniform grid inside an m-times finer one:  n |-> m * n
   Laws:  layer(Shift(u, s)) = Shift(layer(u), s);  for band-limited input  layer_f(u_f)[m n] = layer_c(u_c)[n];
          the input tensor is not modified.
   Impl bookkeeping (mode padding / truncation at the END of each axis, kernel index = frequency index) is checked
   at design level in MC_Fourier.                                                                          *)
EXTENDS Integers, Sequences
AbsD(a, b) == IF a > b THEN a - b ELSE b - a
Mod(a, n) == ((a % n) + n) % n
Shift1(u, s) == [b \in DOMAIN u |-> LET N == Len(u[b]) IN [n \in 1..N |-> u[b][Mod(n - 1 - s[1], N) + 1]]]
Shift2(u, s) == [b \in DOMAIN u |-> LET N1 == Len(u[b])  N2 == Len(u[b][1]) IN
                   [n1 \in 1..N1 |-> [n2 \in 1..N2 |-> u[b][Mod(n1 - 1 - s[1], N1) + 1][Mod(n2 - 1 - s[2], N2) + 1]]]]
Close1(a, b, tol) == \A i \in DOMAIN a : \A n \in DOMAIN a[i] : \A c \in DOMAIN a[i][n] : AbsD(a[i][n][c], b[i][n][c]) <= tol
Close2(a, b, tol) == \A i \in DOMAIN a : \A n \in DOMAIN a[i] : \A k \in DOMAIN a[i][n] : \A c \in DOMAIN a[i][n][k] : AbsD(a[i][n][k][c], b[i][n][k][c]) <= tol
RefineOK(yc, yf, m, tol) == \A i \in DOMAIN yc : \A n \in DOMAIN yc[i] : \A c \in DOMAIN yc[i][n] : AbsD(yc[i][n][c], yf[i][m * (n - 1) + 1][c]) <= tol
\* ---- Impl bookkeeping of one axis: spectrum length L (= N for a full axis, N \div 2 + 1 for the last, real, axis),
\* M kernel modes: the code pads (M - L >= 0) or truncates (M - L < 0) at the END, multiplies entry k with kernel[k],
\* and the inverse transform reads the first L entries again (zero-filling when M < L).
KeptEntries(L, M) == {k \in 0..(L - 1) : k < M}
PadAmount(L, M) == M - L
AfterPad(L, M) == [k \in 0..(M - 1) |-> IF k < L THEN k ELSE -1]         \* which input frequency sits at kernel slot k (-1: zero)
BackToL(L, M) == [k \in 0..(L - 1) |-> IF k < M THEN k ELSE -1]           \* which kernel slot feeds output frequency k
=============================================================================

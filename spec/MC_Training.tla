---------------------------- MODULE MC_Training ----------------------------
(* Design level: the reference loop as a state machine (CondEval per condition, OptStep, ValEval, SchedStep folded into
   OptStep) over a small configuration; TLC checks its invariants in every reachable state. *)
EXTENDS Training, TLC
VARIABLES st, pc, evals
Cfg == [a0 |-> 1, b0 |-> 0, k0 |-> 2, nl |-> 2, lrn |-> 1, lrd |-> 4, mun |-> 1, mud |-> 2, ssize |-> 1, freq |-> 2, gn |-> 1, gd |-> 2, N |-> 3,
        train |-> <<[kind |-> "adapt", xs |-> <<1, -1>>, p |-> 1, q |-> 0, c |-> 0, wn |-> 1, wd |-> 1],
                    [kind |-> "inv", xs |-> <<1, -1>>, p |-> 0, q |-> 0, c |-> 0, wn |-> 1, wd |-> 2],
                    [kind |-> "pen", xs |-> <<>>, p |-> 0, q |-> 0, c |-> 1, wn |-> 1, wd |-> 2]>>]
Init == st = Init0(Cfg) /\ pc = 0 /\ evals = <<>>
CondEval == pc < Len(Cfg.train) /\ pc' = pc + 1 /\ evals' = Append(evals, <<pc + 1, st.k>>) /\ UNCHANGED st
OptStep == pc = Len(Cfg.train) /\ st.k < Cfg.N /\ st' = Step(Cfg, st) /\ pc' = 0 /\ UNCHANGED evals
ValEval == pc = 0 /\ UNCHANGED <<st, pc, evals>>
Next == CondEval \/ OptStep \/ ValEval
Spec == Init /\ [][Next]_<<st, pc, evals>>
\* each condition evaluated once per step, in order, with the step index
EvalOrder == \A i \in DOMAIN evals : evals[i] = <<((i - 1) % Len(Cfg.train)) + 1, (i - 1) \div Len(Cfg.train)>>
\* adaptive weights ascend
LamAscends == [][\A i \in DOMAIN st.lam : st'.lam[i][1] * st.lam[i][2] >= st.lam[i][1] * st'.lam[i][2]]_st
\* learning rate never increases and is lr0 * gamma^j
LrOK == st.lr[1] = 1 /\ st.lr[2] \in {4, 8, 16, 32}
InBudget == StateFits(st)
=============================================================================

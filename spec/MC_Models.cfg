SPECIFICATION Spec
INVARIANT SeqFunctional
INVARIANT ParFunctional
INVARIANT SpacesOK
CHECK_DEADLOCK FALSE

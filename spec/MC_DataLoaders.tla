------------------------- MODULE MC_DataLoaders -------------------------
(* Design-level check: the loaders' index arithmetic (Impl) against property C16 (Abs),
   for ALL data-set sizes and batch sizes up to the bounds, one GetItem action per
   __getitem__ call of one pass over the loader. *)
EXTENDS DataLoaders
CONSTANTS MaxN, MaxB, Dev, Kinds, SharedKnown
VARIABLES cfg, idx, ep
vars == <<cfg, idx, ep>>

BSizes == (1..MaxB) \cup {-1}
Configs ==
    {c \in [kind : Kinds, Nb : 1..MaxN, Nt : 1..MaxN, bb : BSizes, tb : BSizes, drop : BOOLEAN] :
        /\ (c.kind = "points" => c.Nt = 1 /\ c.tb = 1 /\ c.bb > 0)
        /\ (c.kind # "points" => c.drop = FALSE)}

EpochLen(c) == IF c.kind = "points" THEN PD_Len(c.Nb, c.bb, c.drop)
               ELSE Len(ImplEpoch(c.kind, c.Nb, c.Nt, c.bb, c.tb, Dev))
Item(c, i) == IF c.kind = "points" THEN [br |-> PD_Item(c.Nb, c.bb, i), tr |-> <<0>>]
              ELSE ImplEpoch(c.kind, c.Nb, c.Nt, c.bb, c.tb, Dev)[i + 1]

Init == cfg \in Configs /\ idx = 0 /\ ep = <<>>
GetItem == /\ idx < EpochLen(cfg)
           /\ ep' = Append(ep, Item(cfg, idx))
           /\ idx' = idx + 1
           /\ UNCHANGED cfg
Next == GetItem
Spec == Init /\ [][Next]_vars

\* the acknowledged deviation of the shared-trunk loader: both slices are driven by ONE index,
\* so only pairs of batch numbers (i mod P, i mod Q) occur, P, Q the two periods.
SharedGap(c) == LET bb == EffBS(c.Nb, c.bb)  tb == EffBS(c.Nt, c.tb)
                IN GCD(LCM(c.Nb, bb) \div bb, LCM(c.Nt, tb) \div tb) > 1

SizeInv == DO_SizeOK(ep, cfg.Nb, cfg.Nt, cfg.bb, cfg.tb)
Done == idx = EpochLen(cfg)
CoverInv == Done =>
    IF cfg.kind = "points"
    THEN LET e == [i \in DOMAIN ep |-> ep[i].br]
         IN PD_CoverOK(e, cfg.Nb, cfg.bb, cfg.drop) /\ PD_DropOK(e, cfg.bb, cfg.drop)
    ELSE IF cfg.kind = "shared" /\ SharedKnown
         THEN SharedGap(cfg) \/ DO_CoverOK(ep, cfg.Nb, cfg.Nt)      \* gaps only where the finding applies
         ELSE DO_CoverOK(ep, cfg.Nb, cfg.Nt)
\* an epoch is never empty and never endless
LenInv == EpochLen(cfg) >= (IF cfg.kind = "points" /\ cfg.drop THEN 0 ELSE 1) /\ EpochLen(cfg) <= cfg.Nb * cfg.Nt
==========================================================================

---------------------------- MODULE Trace_C15 ----------------------------
(* Trace validation for C15.  A trace is the history of calls on ONE real sampler object with the id of
   the point set (static / plain) or of every returned row (adaptive) as observed by the driver.
   Static / plain histories are validated step by step against the StaticAbs machine: each logged event
   must be an enabled Abs action producing the logged return value; the monitor records the first
   failing step with the name of the clause, resynchronises on the observation and goes on.        *)
EXTENDS Integers, Sequences, FiniteSets, TLC, TLCExt, Json, IOUtils
CONSTANTS Inf
Traces == JsonDeserialize(IOEnv.TRACE_FILE)
VARIABLES tid, l, verdict, interval, cur, run, rrun, nfresh, ret, last, hi
A == INSTANCE StaticAbs
Ad == INSTANCE Adaptive
vars == <<tid, l, verdict, interval, cur, run, rrun, nfresh, ret, last, hi>>
T == Traces[tid]
Ev == T.events
Sc == T.scenario
Bad(c) == IF verdict = "ok" THEN c \o "@" \o ToString(l) ELSE verdict

Init == /\ tid \in 1..Len(Traces) /\ l = 1
        /\ verdict = (IF "driver_error" \in DOMAIN Traces[tid] THEN "driver-error" ELSE "ok")
        /\ A!AInit(Traces[tid].scenario.iv0) /\ last = <<>> /\ hi = 0

\* ----- static / plain events: the logged return id r must be producible by an enabled Abs action
StaticStep(e) ==
    LET r == e.ret IN
    IF e.a = "sib"          \* a call on the sibling sampler: nothing changes for the observed one
    THEN UNCHANGED <<interval, cur, run, rrun, nfresh, ret>> /\ verdict' = (IF "exc" \in DOMAIN e THEN Bad("sibling-call-failed:" \o e.exc) ELSE verdict)
    ELSE IF e.a = "restatic"
    THEN A!Restatic(e.iv) /\ verdict' = verdict
    ELSE IF "exc" \in DOMAIN e
    THEN verdict' = Bad("call-failed:" \o e.exc) /\ UNCHANGED <<interval, cur, run, rrun, nfresh, ret>>
    ELSE IF e.a = "call" /\ r = cur /\ cur # 0
    THEN IF A!CachedOK THEN A!ServeCached /\ verdict' = verdict
         ELSE /\ verdict' = Bad("stale-set-after-interval")     \* identical set although the interval has elapsed
              /\ run' = run + 1 /\ rrun' = rrun + 1 /\ ret' = r /\ UNCHANGED <<interval, cur, nfresh>>
    ELSE IF e.a = "call" /\ r = nfresh + 1
    THEN IF A!FreshOK THEN A!ServeFresh /\ verdict' = verdict
         ELSE /\ verdict' = Bad("fresh-set-before-interval")    \* a new set although the interval has not elapsed
              /\ nfresh' = r /\ cur' = r /\ ret' = r /\ run' = 1 /\ rrun' = 1 /\ UNCHANGED interval
    ELSE IF e.a = "next" /\ r = cur /\ cur # 0
    THEN /\ verdict' = verdict /\ ret' = r
         /\ \/ UNCHANGED <<interval, cur, run, rrun, nfresh>>           \* peek is not a use ...
            \/ A!CachedOK /\ run' = run + 1 /\ rrun' = rrun + 1 /\ UNCHANGED <<interval, cur, nfresh>>   \* ... or it is
    ELSE IF e.a = "next" /\ r = nfresh + 1 /\ A!FreshOK
    THEN A!ServeFresh /\ verdict' = verdict
    ELSE /\ verdict' = Bad("returned-an-old-or-unknown-set")     \* neither the current set nor a fresh one
         /\ ret' = r /\ cur' = r /\ run' = 1 /\ rrun' = 1 /\ nfresh' = (IF r > nfresh THEN r ELSE nfresh)
         /\ UNCHANGED interval

\* ----- adaptive events
InDomain(e) == \A i \in DOMAIN e.x : e.x[i] >= Sc.lo * 256 /\ e.x[i] <= Sc.hi * 256
AdaptStep(e) ==
    /\ UNCHANGED <<interval, cur, run, rrun, nfresh, ret>>
    /\ IF "exc" \in DOMAIN e
       THEN verdict' = Bad("call-failed:" \o e.exc) /\ UNCHANGED <<last, hi>>
       ELSE LET c == Ad!SampleClause(last, hi, e.loss, Sc.ratio[1], Sc.ratio[2], Sc.n, e.ret)
                mx == IF e.ret = <<>> THEN hi ELSE Ad!SMax(e.ret)
            IN /\ verdict' = (IF c # "ok" THEN Bad(c) ELSE IF ~InDomain(e) THEN Bad("fresh-point-outside-domain") ELSE verdict)
               /\ last' = e.ret
               /\ hi' = IF mx > hi THEN mx ELSE hi

Step == /\ l <= Len(Ev) /\ l' = l + 1 /\ tid' = tid
        /\ IF Sc.kind = "adaptive" THEN AdaptStep(Ev[l]) ELSE StaticStep(Ev[l]) /\ UNCHANGED <<last, hi>>
Next == Step
\* binding to the statistics of the random variant is in Trace_C15R
\* a trace is accepted iff SOME resolution of the monitor's nondeterminism ends with verdict "ok"
\* adaptive samplers called without a loss (two parameter rows, none, three; n = 2 points per row): a fresh sample for THAT call
FreshOK == "fresh_counts" \notin DOMAIN T \/ T.fresh_counts = <<<<4, 2, 6>>, <<4, 2, 6>>>>
Fin == (l = Len(Ev) + 1) =>
          /\ TLCSet(1, TLCGet(1) \cup {tid})
          /\ IF verdict = "ok" /\ ~FreshOK THEN TLCSet(4, TLCGet(4) \cup {<<tid, "adaptive-call-without-loss-is-not-a-fresh-sample-for-its-parameters">>})
             ELSE IF verdict = "ok" THEN TLCSet(3, TLCGet(3) \cup {tid})
             ELSE TLCSet(4, TLCGet(4) \cup {<<tid, verdict>>})
Post == /\ \A t \in TLCGet(1) \ TLCGet(3) :
             LET p == CHOOSE q \in TLCGet(4) : q[1] = t IN PrintT(<<"REJ", Traces[t].tid, p[2], "">>)
        /\ PrintT(<<"VALIDATED", Cardinality(TLCGet(1))>>)
ASSUME TLCSet(1, {}) /\ TLCSet(3, {}) /\ TLCSet(4, {})
==========================================================================

SPECIFICATION Spec
CONSTANTS MaxN = 6 MaxB = 7 Dev = {} Kinds = {"points","shared","unique"} SharedKnown = TRUE
INVARIANT SizeInv
INVARIANT CoverInv
INVARIANT LenInv
CHECK_DEADLOCK FALSE

SPECIFICATION Spec
CONSTANTS MaxRows = 2 MaxVarsU = 1
INVARIANT RoundTrip
INVARIANT SelectLaw
INVARIANT Commute
INVARIANT JoinLaw
INVARIANT ProdLaw
INVARIANT EqLaw
INVARIANT CatLaw
INVARIANT RepLaw
CHECK_DEADLOCK FALSE

---------------------------- MODULE Trace_Cond ----------------------------
(* Trace validation for C04 and C14: a history of constructing / evaluating real conditions.  After every event the
   monitor checks: what the residual received BY NAME, row by row, equals the Abs values for THIS condition's own
   points (Conditions.tla); the loss is the documented reduction; the user dictionaries still hold the user's own
   function objects; repeated evaluations of a condition with a static sampler return the same loss.          *)
EXTENDS Conditions, TLC, TLCExt, Json, IOUtils
Traces == JsonDeserialize(IOEnv.TRACE_FILE)
VARIABLES tid, l, verdict, conds, lastloss, scount
vars == <<tid, l, verdict, conds, lastloss, scount>>
T == Traces[tid]
Ops == T.scenario.ops
Ev == T.events
Bad(c) == IF verdict = "ok" THEN c \o "@" \o ToString(l) ELSE verdict
DictOf(c) == IF c.dict = 0 THEN <<>> ELSE T.scenario.dicts[c.dict]
RatEq(q, num, den) == q[1] * den = num * q[2]
DictsIntact(e) == \A i \in DOMAIN e.dicts : \A k \in DOMAIN e.dicts[i].items : e.dicts[i].items[k].type \in {"function", "UserFunction"} /\ e.dicts[i].items[k].same
RecvOK(c, e) ==
    LET d == DictOf(c)  n == Len(c.rows) IN
    /\ DOMAIN e.recv = Needs(c.res)                                   \* exactly the declared names
    /\ \A nm \in Needs(c.res) :
         IF nm = "kappa" THEN e.recv[nm] = <<c.kappa>>
         ELSE e.recv[nm] = [r \in 1..n |-> Arg(c, d, nm, r)]
EvalClause(c, e) ==
    IF e.exc # "" THEN "evaluation-failed:" \o e.exc
    ELSE IF ~RecvOK(c, e) THEN "residual-arguments"
    ELSE IF ~RatEq(e.loss, LossTimesN(c, DictOf(c)), Len(c.rows)) THEN "loss-value"
    ELSE "ok"
\* the rows a condition computes on NOW: its own data sampler's, the first draw of a shared static sampler, the next draw of
\* a shared non-static sampler
\* (sampler 3 is static with resample_interval 2: WHEN it resamples is property C15's business; the rows are those of the
\* latest draw of the underlying sampler, as observed)
RowsNow(c, e) == IF c.smp = 0 THEN c.rows ELSE IF c.smp = 3 THEN DrawOf(3, e.scounts[3])
                 ELSE IF c.static THEN DrawOf(c.smp, 1) ELSE DrawOf(c.smp, scount[c.smp] + 1)
SamplerClause(c, e) ==
    IF c.smp = 0 THEN "ok"
    ELSE IF c.smp = 3 THEN (IF e.scounts[3] >= 1 THEN "ok" ELSE "sampler-draw-count")
    ELSE IF c.static /\ e.scounts[c.smp] > 1 THEN "static-sampler-drew-again"
    ELSE IF ~c.static /\ e.scounts[c.smp] # scount[c.smp] + 1 THEN "sampler-draw-count"
    ELSE "ok"
Init == /\ tid \in 1..Len(Traces) /\ l = 1 /\ conds = [i \in 1..20 |-> [kind |-> "none"]] /\ lastloss = [i \in 1..20 |-> <<0, 0>>]
        /\ scount = <<0, 0, 0>>
        /\ verdict = (IF "driver_error" \in DOMAIN Traces[tid] THEN "driver-error" ELSE "ok")
Step == /\ l <= Len(Ev) /\ l' = l + 1 /\ tid' = tid
        /\ scount' = Ev[l].scounts                                      \* resynchronise on the observation
        /\ LET op == Ops[l]  e == Ev[l] IN
           IF op.a = "mv"
           THEN /\ UNCHANGED <<conds, lastloss>>
                /\ verdict' = (IF e.exc # "" THEN Bad("moving-static-data-failed:" \o e.exc)
                               ELSE IF ~DictsIntact(e) THEN Bad("user-dictionary-modified-by-train-start") ELSE verdict)
           ELSE IF op.a = "con"
           THEN /\ conds' = [conds EXCEPT ![op.c] = op]
                /\ UNCHANGED lastloss
                /\ verdict' = (IF e.exc # "" THEN Bad("construction-failed:" \o e.exc)
                               ELSE IF ~DictsIntact(e) THEN Bad("user-dictionary-modified-by-construction") ELSE verdict)
           ELSE LET c0 == conds[op.c]
                    c == [c0 EXCEPT !.rows = RowsNow(c0, e)]
                    cl == IF e.exc = "" /\ SamplerClause(c0, e) # "ok" THEN SamplerClause(c0, e) ELSE EvalClause(c, e) IN
                /\ UNCHANGED conds
                /\ lastloss' = [lastloss EXCEPT ![op.c] = IF e.exc = "" THEN e.loss ELSE @]
                /\ verdict' = (IF cl # "ok" THEN Bad(cl)
                               ELSE IF ~DictsIntact(e) THEN Bad("user-dictionary-modified-by-evaluation")
                               ELSE IF c.static /\ c.smp # 3 /\ lastloss[op.c] # <<0, 0>> /\ lastloss[op.c] # e.loss THEN Bad("static-condition-not-repeatable")
                               ELSE verdict)
Next == Step
Fin == (l = Len(Ev) + 1) =>
          /\ TLCSet(1, TLCGet(1) \cup {tid})
          /\ (verdict = "ok" \/ PrintT(<<"REJ", T.tid, verdict, "">>))
Post == PrintT(<<"VALIDATED", Cardinality(TLCGet(1))>>)
ASSUME TLCSet(1, {})
==========================================================================

---------------------------- MODULE Trace_C08 ----------------------------
(* Trace validation for C08: observations (named input row id -> output row) of one real model under many
   presentations, against the laws of Models.tla. *)
EXTENDS Models, TLC, TLCExt, Json, IOUtils
Traces == JsonDeserialize(IOEnv.TRACE_FILE)
VARIABLES tid, verdict, dev
Tol == 8           \* 8 / 4096 ~ 2e-3 for outputs of order 1..10; Close adds 2^-16 of the value for large outputs
M(t) == t.scenario.model
AllObs(t) == LET ps == {i \in DOMAIN t.pres : t.pres[i].exc = "" /\ t.pres[i].drop = ""} IN
             UNION {{t.pres[i].obs[j] : j \in DOMAIN t.pres[i].obs} : i \in ps}
FunctionalSet(S) == \A a \in S, b \in S : a.rid = b.rid => Close(a.out, b.out, Tol)
Check(t) ==
    IF "driver_error" \in DOMAIN t THEN "driver-error"
    ELSE IF t.build_exc # "" THEN "construction-failed:" \o t.build_exc
    ELSE IF t.ins # InSpace(M(t)) THEN "input-space"
    ELSE IF t.outs # OutSpace(M(t)) THEN "output-space"
    ELSE IF \E i \in DOMAIN t.pres : t.pres[i].drop # "" /\ t.pres[i].exc = "" THEN "missing-variable-accepted"
    ELSE IF \E i \in DOMAIN t.pres : t.pres[i].drop = "" /\ t.pres[i].axes = 1 /\ t.pres[i].exc # "" THEN "presentation-rejected:" \o t.pres[CHOOSE i \in DOMAIN t.pres : t.pres[i].drop = "" /\ t.pres[i].axes = 1 /\ t.pres[i].exc # ""].exc
    ELSE IF \E i \in DOMAIN t.pres : t.pres[i].exc = "" /\ t.pres[i].drop = "" /\ t.pres[i].outsp # OutSpace(M(t)) THEN "output-space-of-result"
    ELSE IF ~FunctionalSet(AllObs(t)) THEN "output-depends-on-order-or-batch"
    ELSE IF \E i \in DOMAIN t.pres : "ref" \in DOMAIN t.pres[i] /\ \E j \in DOMAIN t.pres[i].obs : ~Close(t.pres[i].obs[j].out, t.pres[i].ref[j], Tol)
         THEN (IF M(t).k = "seq" THEN "sequential-is-not-composition" ELSE "parallel-is-not-join")
    ELSE "ok"
Init == tid \in 1..Len(Traces) /\ verdict = Check(Traces[tid]) /\ dev = ""
Next == FALSE /\ UNCHANGED <<tid, verdict, dev>>
Report == /\ TLCSet(1, TLCGet(1) \cup {tid})
          /\ (verdict = "ok" \/ PrintT(<<"REJ", Traces[tid].tid, verdict, dev>>))
Post == PrintT(<<"VALIDATED", Cardinality(TLCGet(1))>>)
ASSUME TLCSet(1, {})
==========================================================================

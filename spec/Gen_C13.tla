----------------------------- MODULE Gen_C13 -----------------------------
(* Scenario generation for C13.
   Exhaustive part (constant level): EVERY signature with <= MaxP positional-or-keyword parameters
   over the name pool, every defaults suffix; for each, one call and one partial evaluation per
   subset of Pool + {"z"} (every superset / subset of the required names), the partial evaluation
   followed by a call that supplies the complement.
   Behavioural part (-simulate): histories of wrap / call / partially_evaluate / set_default /
   remove_default / re-wrap / deepcopy over a heap of wrappers; the generator tracks the abstract heap
   (UserFun.tla rules) only to produce well-formed references.                                   *)
EXTENDS UserFun, TLC, Json, IOUtils, SequencesExt
CONSTANTS Pool, MaxP, Depth, Mode
VARIABLES cls, heap, hist
vars == <<cls, heap, hist>>
AllNames == Pool \cup {"z"}
ValOf(a) == CASE a = "x" -> 1 [] a = "t" -> 2 [] a = "k" -> 3 [] a = "u" -> 4 [] OTHER -> 5
InjSeqs(m) == {s \in [1..m -> Pool] : \A i, j \in 1..m : i # j => s[i] # s[j]}
Sigs == UNION {{[i \in 1..m |-> [n |-> s[i], d |-> (i > m - nd), v |-> 10 + i]] : s \in InjSeqs(m), nd \in 0..m} : m \in 0..MaxP}
MapOn(K, off) == [a \in K |-> ValOf(a) + off]
ExhOps(sig) == LET w == Wrap(sig) IN
    SetToSeq({[a |-> "call", w |-> 1, M |-> MapOn(K, 0), R |-> <<>>, names |-> <<>>] : K \in SUBSET AllNames})
    \o SetToSeq({[a |-> "pecall", w |-> 1, M |-> MapOn(K, 20), R |-> MapOn(AllNames \ K, 0), names |-> <<>>] : K \in SUBSET AllNames})
    \o SetToSeq({[a |-> "pecall", w |-> 1, M |-> MapOn(K, 20), R |-> MapOn(AllNames, 40), names |-> <<>>] : K \in SUBSET Pool})
ExhScen == {[cls |-> c, sig |-> sig, ops |-> ExhOps(sig)] : sig \in Sigs, c \in {"UF", "DUF"}}

\* ---- behavioural part
RandMap(dummy) == LET K == RandomElement(SUBSET AllNames) IN [a \in K |-> RandomElement(1..9)]
RandSig(dummy) == RandomElement(Sigs)
Init == /\ cls \in {"UF", "DUF"} /\ heap = <<>> /\ hist = <<>>
Op(o) == hist' = Append(hist, o)
\* random choices are bound by \E over a singleton so that each is made exactly once per step
Next == /\ Len(hist) < Depth /\ UNCHANGED cls
        /\ \/ /\ Len(heap) < 4
              /\ \E sig \in {RandSig(Len(hist))} :
                 Op([a |-> "wrap", w |-> 0, M |-> <<>>, R |-> <<>>, names |-> <<>>, sig |-> sig]) /\ heap' = Append(heap, Wrap(sig))
           \/ /\ heap # <<>>
              /\ \E i \in {RandomElement(IF heap = <<>> THEN {1} ELSE DOMAIN heap)}, M \in {RandMap(Len(hist))} :
                 \/ Op([a |-> "call", w |-> i, M |-> M, R |-> <<>>, names |-> <<>>, sig |-> <<>>]) /\ UNCHANGED heap
                 \/ /\ Op([a |-> "pe", w |-> i, M |-> M, R |-> <<>>, names |-> <<>>, sig |-> <<>>])
                    /\ heap' = IF CanCall(heap[i], M) THEN heap ELSE Append(heap, PEWrapper(heap[i], M))
                 \/ Op([a |-> "setdef", w |-> i, M |-> M, R |-> <<>>, names |-> <<>>, sig |-> <<>>]) /\ heap' = [heap EXCEPT ![i] = SetDef(@, M)]
                 \/ /\ DOMAIN heap[i].defaults # {}
                    /\ \E nm \in {RandomElement(DOMAIN heap[i].defaults)} :
                       Op([a |-> "rmdef", w |-> i, M |-> <<>>, R |-> <<>>, names |-> <<nm>>, sig |-> <<>>]) /\ heap' = [heap EXCEPT ![i] = RmDef(@, {nm})]
                 \/ Len(heap) < 6 /\ Op([a |-> "copy", w |-> i, M |-> <<>>, R |-> <<>>, names |-> <<>>, sig |-> <<>>]) /\ heap' = Append(heap, heap[i])
                 \/ Len(heap) < 6 /\ Op([a |-> "rewrap", w |-> i, M |-> <<>>, R |-> <<>>, names |-> <<>>, sig |-> <<>>]) /\ heap' = Append(heap, heap[i])
Spec == Init /\ [][Next]_vars
Emit == (Len(hist) = Depth) => TLCSet(2, TLCGet(2) \cup {[cls |-> cls, sig |-> <<>>, ops |-> hist]})
Post == ndJsonSerialize(IOEnv.OUT_FILE, SetToSeq(IF Mode = "exh" THEN ExhScen ELSE TLCGet(2)))
        /\ PrintT(<<"SCENARIOS", Cardinality(IF Mode = "exh" THEN ExhScen ELSE TLCGet(2))>>)
ASSUME TLCSet(2, {})
==========================================================================

---------------------------- MODULE Trace_C09 ----------------------------
(* Trace validation for C09: recorded integer features / outputs / derivatives of real DeepONet models. *)
EXTENDS DeepONet, TLC, TLCExt, Json, IOUtils
Traces == JsonDeserialize(IOEnv.TRACE_FILE)
VARIABLES tid, verdict, dev
Seq2Set(s) == {s[i] : i \in DOMAIN s}
Check(t) ==
    IF "driver_error" \in DOMAIN t THEN "driver-error"
    ELSE IF t.exc # "" THEN "model-failed:" \o t.exc
    ELSE IF \E i \in DOMAIN t.calls : ~Contraction(t.calls[i].B, t.calls[i].T, t.calls[i].Out) THEN "output-is-not-branch-trunk-inner-product"
    ELSE IF ~FunctionalObs(UNION {{[id |-> t.calls[i].fids[a], f |-> t.calls[i].B[a]] : a \in DOMAIN t.calls[i].fids} : i \in DOMAIN t.calls})
         THEN "branch-features-depend-on-batch-or-input-form"
    ELSE IF ~FunctionalObs(UNION {{[id |-> t.calls[i].lids[a], f |-> t.calls[i].T[a]] : a \in DOMAIN t.calls[i].lids} : i \in DOMAIN t.calls})
         THEN "trunk-features-depend-on-batch"
    ELSE IF \E i \in DOMAIN t.hist : t.hist[i].used # t.hist[i].fixed THEN "forward-used-another-branch-input"
    \* a large evaluation (above 2^22 entries of the branch x trunk product): sampled locations, incl. the far end, as in a small batch
    ELSE IF "big" \in DOMAIN t /\ t.big.large # t.big.small THEN "output-depends-on-what-else-is-in-the-batch(large evaluation)"
    ELSE IF t.fast.out # t.plain.out THEN "fast-path-output"
    ELSE IF t.fast.dx # t.plain.dx THEN "fast-path-first-derivative"
    ELSE IF t.fast.lap # t.plain.lap THEN "fast-path-second-derivative"
    ELSE IF t.fast.pgrad # t.plain.pgrad THEN "fast-path-parameter-gradient"
    ELSE IF t.fast.pgrad_d # t.plain.pgrad_d THEN "fast-path-parameter-gradient-of-derivative-loss"
    ELSE IF t.fast3.out # t.plain.out3 \/ t.fast3.pgrad # t.plain.pgrad3 THEN "fast-path-with-copied-trunk-input"
    \* the trunk points repeated for every function (B, N, d), as the physics-informed condition hands them over: the derivatives w.r.t.
    \* every copy of the points, and the parameter gradients of a loss containing them
    ELSE IF "dx3" \in DOMAIN t.plain /\ (t.fast3.dx # t.plain.dx3 \/ t.fast3.lap # t.plain.lap3) THEN "fast-path-derivative-with-copied-trunk-input"
    ELSE IF "pgrad_d3" \in DOMAIN t.plain /\ t.fast3.pgrad_d # t.plain.pgrad_d3 THEN "fast-path-parameter-gradient-of-derivative-loss-with-copied-trunk-input"
    ELSE "ok"
Init == tid \in 1..Len(Traces) /\ verdict = Check(Traces[tid]) /\ dev = ""
Next == FALSE /\ UNCHANGED <<tid, verdict, dev>>
Report == /\ TLCSet(1, TLCGet(1) \cup {tid})
          /\ (verdict = "ok" \/ PrintT(<<"REJ", Traces[tid].tid, verdict, dev>>))
Post == PrintT(<<"VALIDATED", Cardinality(TLCGet(1))>>)
ASSUME TLCSet(1, {})
==========================================================================

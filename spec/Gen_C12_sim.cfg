SPECIFICATION Spec
CONSTANTS Depth = 10 Mode = "sim"
CONSTRAINT Emit
POSTCONDITION Post
CHECK_DEADLOCK FALSE

---------------------------- MODULE Trace_C10 ----------------------------
(* Trace validation for C10: volume() per parameter row against the exact measure Vol(e, env) of Geometry.tla
   (rationals + rational multiples of pi), user-set override, and the number of points density sampling returns. *)
EXTENDS Geometry, TLC, TLCExt, Json, IOUtils
Traces == JsonDeserialize(IOEnv.TRACE_FILE)
VARIABLES tid, verdict, dev, judged
E(t) == t.scenario.expr
Env(t, i) == [n \in DOMAIN t.prm[i] |-> t.prm[i][n] \div F]
Env0 == [t |-> 0, k |-> 0]
\* lattice verification of the declarations the property conditions on
Lat == {-896 + 96 * i + 7 : i \in 0..18}
QAt(env, x, y) == [val |-> [nm \in {"x", "t", "k"} |-> IF nm = "x" THEN <<x, y>> ELSE <<(IF nm \in DOMAIN env THEN env[nm] ELSE 0) * F>>], w |-> 1]
Disjoint(a, b, env) == \A p \in Lat \X Lat : ~(In(a, QAt(env, p[1], p[2])) /\ In(b, QAt(env, p[1], p[2])))
Contained(b, a, env) == \A p \in Lat \X Lat : In(b, QAt(env, p[1], p[2])) => In(a, QAt(env, p[1], p[2]))
\* is the measure of e fixed by the property at this parameter row?
RECURSIVE VolDefined(_, _)
VolDefined(e, env) ==
  CASE e.k \in {"interval", "point", "par", "tri", "circle", "sphere", "poly", "mesh", "bdl", "bdr"} -> TRUE
    [] e.k = "bd" -> e.d.k \in {"interval", "par", "tri", "circle", "sphere", "poly", "mesh"}
                     \/ (e.d.k \in {"trans", "rot"} /\ VolDefined([k |-> "bd", d |-> e.d.d], env))
    [] e.k \in {"trans", "rot"} -> VolDefined(e.d, env)
    [] e.k = "prod" -> FreeVars(e.l) \cap SpaceVars(e.r) = {} /\ VolDefined(e.l, env) /\ VolDefined(e.r, env)
    [] e.k = "union" -> "disjoint" \in DOMAIN e /\ VolDefined(e.l, env) /\ VolDefined(e.r, env) /\ Disjoint(e.l, e.r, env)
    [] e.k = "cut" -> "contained" \in DOMAIN e /\ VolDefined(e.l, env) /\ VolDefined(e.r, env) /\ Contained(e.r, e.l, env)
    [] OTHER -> FALSE
\* density counts: n = ceil(d * vol) for the shapes sampled without rejection
Exact(e) == e.k \in {"interval", "circle", "par", "sphere", "point", "poly", "mesh"} \/ (e.k = "bd" /\ e.d.k \in {"interval", "circle", "par", "tri", "sphere", "poly", "mesh"})
\* translated / rotated non-rejection shapes
RECURSIVE ExactT(_)
ExactT(e) == Exact(e) \/ (e.k \in {"trans", "rot"} /\ ExactT(e.d))
CeilDiv(a, b) == (a + b - 1) \div b
CountOK(n, dn, dd, m) ==
    LET lo == dn * (m[1] * 1024 + m[2] * 3216)  hi == dn * (m[1] * 1024 + m[2] * 3217)
        den == dd * m[3] * 1024
        fz == den \div 64
    IN n >= CeilDiv(lo - fz, den) /\ n <= CeilDiv(hi + fz, den)
Check(t) ==
    IF "driver_error" \in DOMAIN t THEN <<"driver-error", "", 0>>
    ELSE LET e == E(t)
             nrows == IF t.prm = <<>> THEN 1 ELSE Len(t.prm)
             env(i) == IF t.prm = <<>> THEN Env0 ELSE Env(t, i)
             J == {i \in 1..nrows : VolDefined(e, env(i))}
             vol(i) == IF Len(t.vol) = 1 THEN t.vol[1] ELSE t.vol[i]
         IN
         IF J = {} THEN <<"ok", "", 0>>
         ELSE IF t.vol_exc # "" THEN <<"volume-failed:" \o t.vol_exc, "", 0>>
         \* one value per row; a single value is accepted when it holds for every row (measure independent of the parameters)
         ELSE IF Len(t.vol) \notin {1, nrows} THEN <<"one-volume-per-row", "", 0>>
         ELSE IF \E i \in J : ~VolPositive(Vol(e, env(i))) THEN <<"ok", "", 0>>            \* degenerate shape at this row: unjudged
         ELSE IF \E i \in J : vol(i) <= 0 THEN <<"volume-not-positive", "", Cardinality(J)>>
         ELSE IF \E i \in J : ~VolClose(vol(i), Vol(e, env(i))) THEN <<"volume-value", "", Cardinality(J)>>
         ELSE IF \E j \in DOMAIN t.single : t.single[j].vol_exc = "" /\ j \in J /\ ~VolClose(t.single[j].vol[1], Vol(e, env(j))) THEN <<"volume-value(single row)", "", Cardinality(J)>>
         \* the same shape 1e6 / 2e6 units away from the origin has the same measure
         ELSE IF "volfar_exc" \in DOMAIN t /\ t.volfar_exc \notin {"", "none"} THEN <<"volume-failed(far from the origin):" \o t.volfar_exc, "", Cardinality(J)>>
         ELSE IF "volfar" \in DOMAIN t /\ t.volfar # <<>> /\ (Len(t.volfar) \notin {1, nrows}
                    \/ \E i \in J : ~VolClose(IF Len(t.volfar) = 1 THEN t.volfar[1] ELSE t.volfar[i], Vol(e, env(i)))) THEN <<"volume-value(far from the origin)", "", Cardinality(J)>>
         ELSE IF t.uservol_exc # "" \/ \E i \in DOMAIN t.uservol : t.uservol[i] # 5 * 1024 THEN <<"user-set-volume-not-used", "", Cardinality(J)>>
         \* the volume of a product follows a volume the user sets on a factor later (3 * measure of the other factor)
         ELSE IF t.factorvol_exc \notin {"", "none"} THEN <<"product-volume-after-factor-override-failed", "", Cardinality(J)>>
         ELSE IF t.factorvol_exc = "" /\ Len(t.factorvol) \notin {1, nrows} THEN <<"one-volume-per-row(after factor override)", "", Cardinality(J)>>
         ELSE IF t.factorvol_exc = "" /\ \E i \in J : LET m == Vol(e.r, env(i))  v == IF Len(t.factorvol) = 1 THEN t.factorvol[1] ELSE t.factorvol[i]
                                                        IN ~VolClose(v, <<3 * m[1], 3 * m[2], m[3]>>) THEN <<"product-ignores-user-set-volume-of-factor", "", Cardinality(J)>>
         ELSE IF Exact(e) /\ (t.usercount_exc # "" \/ t.usercount # 10) THEN <<"density-count-ignores-user-set-volume", "", Cardinality(J)>>
         ELSE IF ExactT(e) /\ t.usercount_exc = "" /\ t.usercount # 10 THEN <<"density-count-ignores-user-set-volume", "", Cardinality(J)>>
         \* ... given as a tensor, through a history of density samplings (ceil(2 * 5), ceil(3 * 5) points) with the volume read after each
         ELSE IF ExactT(e) /\ "uservol_hist" \in DOMAIN t /\ t.uservol_hist_exc = "" /\ t.uservol_hist # <<<<10, 5 * 1024>>, <<15, 5 * 1024>>>>
              THEN <<"user-set-volume-changed-by-density-sampling", "", Cardinality(J)>>
         ELSE IF Exact(e) /\ "uservol_hist" \in DOMAIN t /\ t.uservol_hist_exc # "" THEN <<"density-sampling-with-user-set-tensor-volume-failed", "", Cardinality(J)>>
         ELSE IF 1 \in J /\ Exact(e) /\ \E c \in {t.counts[i] : i \in DOMAIN t.counts} :
                    c.kind = "random" /\ (c.exc # "" \/ ~CountOK(c.n, c.dn, c.dd, Vol(e, env(1)))) THEN <<"density-count(random)", "", Cardinality(J)>>
         \* (the triangle's random sampler rejects, its grid is a regular barycentric grid: the grid count is judged)
         ELSE IF 1 \in J /\ (Exact(e) \/ e.k = "tri") /\ \E c \in {t.counts[i] : i \in DOMAIN t.counts} :
                    c.kind = "grid" /\ c.exc = "" /\ \A n2 \in c.n..(c.n + 400) : ~CountOK(n2, c.dn, c.dd, Vol(e, env(1))) THEN <<"density-count(grid more than d*vol)", "", Cardinality(J)>>
         ELSE <<"ok", "", Cardinality(J)>>
Init == tid \in 1..Len(Traces) /\ LET r == Check(Traces[tid]) IN verdict = r[1] /\ dev = r[2] /\ judged = r[3]
Next == FALSE /\ UNCHANGED <<tid, verdict, dev, judged>>
Report == /\ TLCSet(1, TLCGet(1) \cup {tid})
          /\ TLCSet(5, TLCGet(5) + judged)
          /\ (verdict = "ok" \/ PrintT(<<"REJ", Traces[tid].tid, verdict, dev>>))
Post == PrintT(<<"VALIDATED", Cardinality(TLCGet(1))>>) /\ PrintT(<<"JUDGED", TLCGet(5)>>)
ASSUME TLCSet(1, {}) /\ TLCSet(5, 0)
==========================================================================

SPECIFICATION Spec
CONSTANTS MaxRows = 3 MaxVarsU = 3
INVARIANT RoundTrip
INVARIANT SelectLaw
INVARIANT Commute
INVARIANT JoinLaw
INVARIANT ProdLaw
INVARIANT EqLaw
INVARIANT CatLaw
INVARIANT RepLaw
CHECK_DEADLOCK FALSE

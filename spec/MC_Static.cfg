SPECIFICATION Spec
CONSTANTS Inf = 1000 Dev = {} MaxIv = 5 MaxLen = 12
PROPERTY Refines
INVARIANT RunInv
CHECK_DEADLOCK FALSE

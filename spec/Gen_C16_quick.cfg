CONSTANTS MaxN = 5 MaxB = 6 AllFlags = FALSE

SPECIFICATION Spec
CONSTANTS Inf = 1000 Dev = {"static_le"} MaxIv = 5 MaxLen = 8
PROPERTY Refines
INVARIANT RunInv
CHECK_DEADLOCK FALSE

---------------------------- MODULE Trace_C19 ----------------------------
(* Trace validation for C19: crash at a checkpointed step + resume in fresh objects ends in the state of the
   uninterrupted run (= the reference loop of Training.tla after N steps): learnables, learning rate and momentum
   buffers; every file of the weight-saving callback loads into a fresh model: init = initial weights, final = weights
   after N steps, min-loss = weights after one of the checked steps.                                          *)
EXTENDS Training, TLC, TLCExt, Json, IOUtils, FiniteSets
Traces == JsonDeserialize(IOEnv.TRACE_FILE)
VARIABLES tid, verdict, dev
Cfg(t) == t.scenario.cfg
Q(p) == <<p[1], p[2]>>
Same(st, r, cfg) == /\ Q(st.a) = r.a /\ Q(st.b) = r.b /\ Q(st.kap) = r.kap /\ Q(st.lr) = r.lr
                    /\ \A i \in DOMAIN st.lam : Q(st.lam[i]) = r.lam[i]
SameOpt(st, r, cfg) == cfg.mun = 0 \/
                       /\ (st.va # <<>> => Q(st.va[1]) = r.va) /\ (st.vb # <<>> => Q(st.vb[1]) = r.vb)
                       /\ (st.vk # <<>> /\ (HasKind(cfg.train, "inv") \/ HasKind(cfg.train, "pen")) => Q(st.vk[1]) = r.vk)
                       /\ \A i \in DOMAIN st.vl : Q(st.vl[i]) = r.vl[i]
\* batch indices b (0-based) at which the weight callback compares the loss: b > 0 and (b - 1) % interval = 0;
\* the saved weights are those at the START of batch b, i.e. after b optimizer steps
Checked(cfg) == {b \in 1..(cfg.N - 1) : (b - 1) % cfg.ckint = 0}
Check(t) ==
    IF "driver_error" \in DOMAIN t THEN "driver-error"
    ELSE IF t.exc # "" THEN "run-failed:" \o t.exc
    ELSE LET cfg == Cfg(t)  want == After(cfg, cfg.N) IN
    IF ~Same(t.run0, want, cfg) THEN "uninterrupted-run-differs-from-reference"
    ELSE IF t.steps2 # cfg.N THEN "resumed-run-step-count"
    ELSE IF ~Same(t.run2, want, cfg) THEN "resumed-run-learnable-state"
    ELSE IF ~SameOpt(t.run2, want, cfg) THEN "resumed-run-optimizer-state"
    \* optimizer "two": its non-tensor state (the step counter of every parameter it moved) survives the checkpoint
    ELSE IF IsTwo(cfg) /\ "n" \in DOMAIN t.run2 /\ t.run2.n # <<cfg.N>> THEN "resumed-run-optimizer-state(non-tensor entry)"
    ELSE IF t.files.init = <<>> \/ Q(t.files.init[1]) # R(cfg.a0) \/ Q(t.files.init[2]) # R(cfg.b0) THEN "initial-weights-file"
    ELSE IF t.files.final = <<>> \/ Q(t.files.final[1]) # want.a \/ Q(t.files.final[2]) # want.b THEN "final-weights-file"
    ELSE IF Checked(cfg) # {} /\ t.files.min_loss = <<>> THEN "min-loss-file-missing"
    ELSE IF t.files.min_loss # <<>> /\ ~\E b \in Checked(cfg) : Q(t.files.min_loss[1]) = After(cfg, b).a /\ Q(t.files.min_loss[2]) = After(cfg, b).b
         THEN "min-loss-file-is-not-a-checked-step"
    \* a second training phase with the SAME callback object and a fresh Trainer: the final file holds the weights after it
    ELSE IF t.files2.final = <<>> \/ Q(t.files2.final[1]) # Q(t.phase2.a) \/ Q(t.files2.final[2]) # Q(t.phase2.b) THEN "final-weights-file-after-second-phase"
    \* the weight files of the RESUMED run: final = the reference after N steps; minimum-loss = a checked step after the resume
    \* ... initial = the weights the resumed training starts from, i.e. the reference after `kill` steps
    ELSE IF "filesr" \in DOMAIN t /\ "init" \in DOMAIN t.filesr /\ (t.filesr.init = <<>> \/ Q(t.filesr.init[1]) # After(cfg, cfg.kill).a \/ Q(t.filesr.init[2]) # After(cfg, cfg.kill).b)
         THEN "initial-weights-file-of-resumed-run"
    ELSE IF "filesr" \in DOMAIN t /\ (t.filesr.final = <<>> \/ Q(t.filesr.final[1]) # want.a \/ Q(t.filesr.final[2]) # want.b) THEN "final-weights-file-of-resumed-run"
    ELSE IF "filesr" \in DOMAIN t /\ t.filesr.min_loss # <<>> /\ ~\E b \in Checked(cfg) : b >= cfg.kill /\ Q(t.filesr.min_loss[1]) = After(cfg, b).a /\ Q(t.filesr.min_loss[2]) = After(cfg, b).b
         THEN "min-loss-file-of-resumed-run-is-not-a-checked-step"
    ELSE "ok"
Init == tid \in 1..Len(Traces) /\ verdict = Check(Traces[tid]) /\ dev = ""
Next == FALSE /\ UNCHANGED <<tid, verdict, dev>>
Report == /\ TLCSet(1, TLCGet(1) \cup {tid})
          /\ (verdict = "ok" \/ PrintT(<<"REJ", Traces[tid].tid, verdict, dev>>))
Post == PrintT(<<"VALIDATED", Cardinality(TLCGet(1))>>)
ASSUME TLCSet(1, {})
==========================================================================

---------------------------- MODULE Trace_C11 ----------------------------
(* Trace validation for C11.  Each trace is one sampling run (N points) of a TLC-chosen law on a TLC-chosen
   expression; recorded are counts per coordinate box (interior laws) or raw points (boundary curves, LHS). *)
EXTENDS SamplingLaws, TLC, TLCExt, Json, IOUtils
Traces == JsonDeserialize(IOEnv.TRACE_FILE)
VARIABLES tid, verdict, dev, judged
E(t) == t.scenario.expr
Sc(t) == t.scenario
\* ---- reference masses by lattice counting: box b (index vector) of size S fine units starting at lo; sub-lattice g x g
SubPts(lo, S, b, g) == {lo + b * S + (S * (2 * i + 1)) \div (2 * g) : i \in 0..(g - 1)}
QXY(t, x, y) == [val |-> [nm \in (DOMAIN t.prm) \cup {"x"} |-> IF nm = "x" THEN <<x, y>> ELSE <<t.prm[nm]>>], w |-> 1]
QU(t, u) == [val |-> [nm \in (DOMAIN t.prm) \cup {"u"} |-> IF nm = "u" THEN <<u>> ELSE <<t.prm[nm]>>], w |-> 1]
Mass2(t, b) == LET s == Sc(t) IN Cardinality({p \in SubPts(s.lo * F, ((s.size * F) \div s.den), b[1], s.g) \X SubPts(s.lo * F, ((s.size * F) \div s.den), b[2], s.g) : In(E(t), QXY(t, p[1], p[2]))})
Mass1(t, b) == LET s == Sc(t) IN Cardinality({p \in SubPts(s.lo * F, ((s.size * F) \div s.den), b[1], s.g) : In(E(t), QU(t, p))})
Boxes2(t) == (0..(Sc(t).nb - 1)) \X (0..(Sc(t).nb - 1))
CountOf(t, b) == LET m == {i \in DOMAIN t.counts : t.counts[i].b = b} IN IF m = {} THEN 0 ELSE t.counts[CHOOSE i \in m : TRUE].n
Outside(t) == \E i \in DOMAIN t.counts : \E j \in DOMAIN t.counts[i].b : t.counts[i].b[j] < 0 \/ t.counts[i].b[j] >= Sc(t).nb
\* a box is "cut" if its sub-lattice is mixed: those boxes get slack (1 / (2 g) of the box per cut row) ~ g lattice points
UniformClause2(t) ==
    LET B == Boxes2(t)  g == Sc(t).g
        m == [b \in B |-> Mass2(t, <<b[1], b[2]>>)]
        tot == SumOver(B, m)
    IN IF tot = 0 THEN "skip"
       \* every box may be cut by the boundary: slack of g lattice points (the lattice has g*g points per box)
       ELSE IF \E b \in B : ~BinomOK(CountOf(t, <<b[1], b[2]>>), t.N, m[b], tot, g) THEN "uniform-cell-frequency"
       ELSE "ok"
UniformClause1(t) ==
    LET B == 0..(Sc(t).nb - 1)
        m == [b \in B |-> Mass1(t, <<b>>)]
        tot == SumOver(B, m)
    IN IF tot = 0 THEN "skip"
       ELSE IF \E b \in B : AbsI(CountOf(t, <<b>>) * tot - t.N * m[b]) > t.N * 2 + ((Z * (ISqrt(t.N) + 1) * tot) \div 2) THEN "uniform-cell-frequency"
       ELSE "ok"
\* grid: deterministic; a box expecting E points holds E up to the discretisation error of a regular arrangement along the
\* box perimeter, <= 2 sqrt(E) + 4 (largest observed on the unchanged tree: 1.4 sqrt(E) in full boxes), plus, for boxes cut by
\* the boundary, the uncertainty of the lattice mass (2 g of g*g lattice points)
GridClause2(t) ==
    LET B == Boxes2(t)  g == Sc(t).g
        m == [b \in B |-> Mass2(t, <<b[1], b[2]>>)]
        tot == SumOver(B, m)
        tolc(b) == 2 * (ISqrt((t.N * m[b]) \div tot) + 1) + 4
        cut(b) == m[b] > 0 /\ m[b] < g * g
    IN IF tot = 0 THEN "skip"
       ELSE IF \E b \in B : AbsI(CountOf(t, <<b[1], b[2]>>) * tot - t.N * m[b]) > tolc(b) * tot + (IF cut(b) THEN t.N * 2 * g ELSE 0) THEN "grid-not-evenly-spread"
       ELSE "ok"
\* marginal of the coordinate u of a product with a first factor over x that depends on u: the mass of a u-bin is the number of
\* lattice points (x, u) of the product inside (x on a 57 x 57 lattice of the window, u on the bin's sub-lattice)
XLat == {-896 + 32 * i : i \in 0..56}
QXYU(t, x, y, u) == [val |-> [nm \in (DOMAIN t.prm) \cup {"x", "u"} |-> IF nm = "x" THEN <<x, y>> ELSE IF nm = "u" THEN <<u>> ELSE <<t.prm[nm]>>], w |-> 1]
MassU(t, b) == LET s == Sc(t) IN Cardinality({q \in SubPts(s.lo * F, ((s.size * F) \div s.den), b, s.g) \X XLat \X XLat : In(E(t), QXYU(t, q[2], q[3], q[1]))})
DepMargClause(t) ==
    LET B == 0..(Sc(t).nb - 1)
        m == [b \in B |-> MassU(t, b)]
        tot == SumOver(B, m)
    \* slack: the lattice mass of a bin is uncertain by about one ring of lattice points per sub-lattice row (~ 40 of ~ 2000)
    IN IF tot = 0 THEN "skip"
       ELSE IF \E b \in B : ~BinomOK(CountOf(t, <<b>>), t.N, m[b], tot, 160) THEN "dependent-product-marginal"
       ELSE "ok"
\* the boundary of an interval: all points in the two boxes of its end points, each end with a binomial(N, 1/2) share
EndpointsClause(t) ==
    LET e == E(t)  env == [nm \in DOMAIN t.prm |-> t.prm[nm] \div F]  s == Sc(t)
        bl == ((AffQ(e.lo, env) - 4 * s.lo) * s.den) \div (4 * s.size)   bh == ((AffQ(e.hi, env) - 4 * s.lo) * s.den) \div (4 * s.size)
    IN IF \E i \in DOMAIN t.counts : t.counts[i].b \notin {<<bl>>, <<bh>>} THEN "interval-boundary-point-off-the-end-points"
       ELSE IF ~BinomOK(CountOf(t, <<bl>>), t.N, 1, 2, 0) \/ ~BinomOK(CountOf(t, <<bh>>), t.N, 1, 2, 0) THEN "interval-boundary-ends-not-equally-likely"
       ELSE "ok"
\* accumulated small grids (std points per call): no cell in which one grid is expected to put at least two points is starved
\* (gets less than a quarter of its share)
GridAccClause(t) ==
    LET B == Boxes2(t)  m == [b \in B |-> Mass2(t, <<b[1], b[2]>>)]  tot == SumOver(B, m)
    IN IF tot = 0 THEN "skip"
       ELSE IF \E b \in B : m[b] * Sc(t).std >= 2 * tot /\ CountOf(t, <<b[1], b[2]>>) * tot * 4 < t.N * m[b] THEN "small-grids-leave-part-of-the-domain-empty"
       ELSE "ok"
\* gaussian on an axis-aligned box [lo, lo + nb*size): boxes of size 1/4, mean and std in quarter units (std = 2 quarters = 1/2)
GaussMass1(t, i) == LET s == Sc(t) IN PhiAt(s.lo4 + i + 1 - s.mean4[1]) - PhiAt(s.lo4 + i - s.mean4[1])
GaussClause(t) ==
    LET s == Sc(t)  B == IF s.dim = 1 THEN {<<i>> : i \in 0..(s.nb - 1)} ELSE {<<i, j>> : i \in 0..(s.nb - 1), j \in 0..(s.nb - 1)}
        mass(b) == IF s.dim = 1 THEN GaussMass1(t, b[1])
                   ELSE ((PhiAt(s.lo4 + b[1] + 1 - s.mean4[1]) - PhiAt(s.lo4 + b[1] - s.mean4[1])) * (PhiAt(s.lo4 + b[2] + 1 - s.mean4[2]) - PhiAt(s.lo4 + b[2] - s.mean4[2]))) \div 262144
        tot == SumOver(B, [b \in B |-> mass(b)])
    IN IF \E b \in B : ~BinomOK(CountOf(t, b), t.N, mass(b), tot, 0) /\ AbsI(CountOf(t, b) * tot - t.N * mass(b)) > (t.N * (tot \div 256)) + ((Z * (ISqrt(t.N) + 1) * tot) \div 2)
       THEN "gaussian-cell-frequency" ELSE "ok"
\* latin hypercube: slab index floor(n (x - min) / (max - min)) per axis is a permutation
Slab(x20, lo4, len4, n) == ((x20 - lo4 * 262144) * n) \div (len4 * 262144)             \* x20 = x * 2^20
LhsClause(t) == LET s == Sc(t) IN
    IF \E ax \in 1..s.dim : ~IsPerm([i \in DOMAIN t.pts |-> Slab(t.pts[i][ax], s.blo4[ax], s.blen4[ax], t.N)], t.N) THEN "latin-hypercube-slabs" ELSE "ok"
\* boundary curves: circle by quadrant (equal mass), polygons by edge (length shares)
CircleBdClause(t) ==
    LET e == E(t)  c == AffVQ(e.c, [nm \in DOMAIN t.prm |-> t.prm[nm] \div F])
        quad(p) == <<IF p[1] * 4 >= c[1] * 1024 THEN 1 ELSE 0, IF p[2] * 4 >= c[2] * 1024 THEN 1 ELSE 0>>
        cnt(qd) == Cardinality({i \in DOMAIN t.pts : quad(t.pts[i]) = qd})
    IN IF \E qd \in {<<0, 0>>, <<0, 1>>, <<1, 0>>, <<1, 1>>} : ~BinomOK(cnt(qd), t.N, 1, 4, 0) THEN "uniform-on-circle" ELSE "ok"
\* the edges of all rings of a polygon term, as one sequence
RingEdgeSeq(r) == [i \in DOMAIN r |-> <<r[i], r[(i % Len(r)) + 1]>>]
RECURSIVE AllEdgeSeq(_, _)
AllEdgeSeq(rs, j) == IF j > Len(rs) THEN <<>> ELSE RingEdgeSeq(rs[j]) \o AllEdgeSeq(rs, j + 1)
\* index of the first edge with the smallest distance  |cross product| / length  to the point p (at 1/1024), scanning from edge k
CrossV(p, u, v) == AbsI((p[1] * 4 - u[1] * 1024) * (v[2] - u[2]) - (p[2] * 4 - u[2] * 1024) * (v[1] - u[1]))
RECURSIVE NearestEdge(_, _, _, _, _)
NearestEdge(p, edges, lens, k, best) ==
    IF k > Len(edges) THEN best
    ELSE NearestEdge(p, edges, lens, k + 1,
                     IF CrossV(p, edges[k][1], edges[k][2]) * lens[best] < CrossV(p, edges[best][1], edges[best][2]) * lens[k] THEN k ELSE best)
PolyBdClause(t) ==
    LET e == E(t)  env == [nm \in DOMAIN t.prm |-> t.prm[nm] \div F]
        o == IF e.k = "poly" THEN <<0, 0>> ELSE AffVQ(e.o, env)  a == IF e.k = "poly" THEN <<0, 0>> ELSE AffVQ(e.a, env)  b == IF e.k = "poly" THEN <<0, 0>> ELSE AffVQ(e.b, env)
        \* which edge a point is on: smallest |cross product| with the edge direction
        crossv(p, u, v) == AbsI((p[1] * 4 - u[1] * 1024) * (v[2] - u[2]) - (p[2] * 4 - u[2] * 1024) * (v[1] - u[1]))
        edges == IF e.k = "poly" THEN AllEdgeSeq(e.rings, 1)
                 ELSE IF e.k = "tri" THEN <<<<o, a>>, <<a, b>>, <<b, o>>>>
                 ELSE <<<<o, a>>, <<a, <<a[1] + b[1] - o[1], a[2] + b[2] - o[2]>>>>, <<<<a[1] + b[1] - o[1], a[2] + b[2] - o[2]>>, b>>, <<b, o>>>>
        lens == [k \in DOMAIN edges |-> Len1024(edges[k][2][1] - edges[k][1][1], edges[k][2][2] - edges[k][1][2])]
        tot == SumOver(DOMAIN lens, lens)
        \* corners belong to two edges: count a point for the first edge that is nearest (one pass over the edges)
        edgeOf(p) == NearestEdge(p, edges, lens, 2, 1)
        cnt(k) == Cardinality({i \in DOMAIN t.pts : edgeOf(t.pts[i]) = k})
    IN IF \E k \in DOMAIN edges : ~BinomOK(cnt(k), t.N, lens[k] \div 16, tot \div 16, 1) THEN "uniform-on-polygon-boundary" ELSE "ok"
\* union A + B: the number of points in A is binomial with the share mass(A) / mass(A + B) (masses by a 128 x 128 lattice over
\* the window, slack of 48 lattice points for the outline); the points are logged at 1/1024, homogeneous weight 4
FineLat == {-1016 + 16 * i : i \in 0..126}
ShareClause(t) ==
    LET e == E(t)
        Qp(p) == [val |-> [nm \in (DOMAIN t.prm) \cup {"x"} |-> IF nm = "x" THEN <<p[1], p[2]>> ELSE <<t.prm[nm] * 4>>], w |-> 4]
        cntA == Cardinality({i \in DOMAIN t.pts : In(e.l, Qp(t.pts[i]))})
        mA == Cardinality({p \in FineLat \X FineLat : In(e.l, QXY(t, p[1], p[2]))})
        mU == Cardinality({p \in FineLat \X FineLat : In(e, QXY(t, p[1], p[2]))})
    IN IF mU = 0 THEN "skip" ELSE IF ~BinomOK(cntA, t.N, mA, mU, 48) THEN "uniform-share-of-first-operand" ELSE "ok"
\* ExponentialIntervalSampler (points at 1/1024): x_i (n+1)^2 = lo (n+1)^2 + len i^2 (exponent 2)  resp.  lo (n+1)^2 + len ((n+1)^2 - i^2) (exponent 1/2),
\* lo = blo4 / 4, len = blen4 / 4 of the judged parameter row
ExpIntClause(t) ==
    LET s == Sc(t)  n == t.N  q == (n + 1) * (n + 1)
        want(i) == s.blo4[1] * 256 * q + s.blen4[1] * 256 * (IF s.std = 2 THEN i * i ELSE q - i * i)
    IN IF Len(t.pts) # n THEN "exponential-grid-count"
       ELSE IF {t.pts[i][1] * q : i \in 1..n} # {want(i) : i \in 1..n} THEN "exponential-grid-positions" ELSE "ok"
Check(t) ==
    IF "driver_error" \in DOMAIN t THEN <<"driver-error", "", 0>>
    ELSE IF t.exc # "" THEN <<"sampling-failed:" \o t.exc, "", 0>>
    ELSE LET s == Sc(t) IN
    IF s.log = "boxes" /\ Outside(t) /\ s.law # "gauss" THEN <<"sample-outside-window", "", 0>>
    ELSE LET c == CASE s.check = "uniform2" -> UniformClause2(t)
                    [] s.check = "uniform1" -> UniformClause1(t)
                    [] s.check = "grid2" -> GridClause2(t)
                    [] s.check = "gridacc" -> GridAccClause(t)
                    [] s.check = "depmarg" -> DepMargClause(t)
                    [] s.check = "endpoints" -> EndpointsClause(t)
                    [] s.check = "gauss" -> GaussClause(t)
                    [] s.check = "lhs" -> LhsClause(t)
                    [] s.check = "circlebd" -> CircleBdClause(t)
                    [] s.check = "polybd" -> PolyBdClause(t)
                    [] s.check = "share" -> ShareClause(t)
                    [] s.check = "expint" -> ExpIntClause(t)
         IN <<IF c = "skip" THEN "ok" ELSE c, "", IF c = "skip" THEN 0 ELSE 1>>
Init == tid \in 1..Len(Traces) /\ LET r == Check(Traces[tid]) IN verdict = r[1] /\ dev = r[2] /\ judged = r[3]
Next == FALSE /\ UNCHANGED <<tid, verdict, dev, judged>>
Report == /\ TLCSet(1, TLCGet(1) \cup {tid})
          /\ TLCSet(5, TLCGet(5) + judged)
          /\ (verdict = "ok" \/ PrintT(<<"REJ", Traces[tid].tid, verdict, dev>>))
Post == PrintT(<<"VALIDATED", Cardinality(TLCGet(1))>>) /\ PrintT(<<"JUDGED", TLCGet(5)>>)
ASSUME TLCSet(1, {}) /\ TLCSet(5, 0)
==========================================================================

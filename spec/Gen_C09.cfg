

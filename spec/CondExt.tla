------------------------------ MODULE CondExt ------------------------------
(* Conditions beyond PINN / mean / periodic (Conditions.tla), in the same exact integer universe: properties C04, C14 and
   the function-set clause of C09.
     pidon    PIDeepONetCondition      deeponet_condition.py   loss = mean over (function i, point j) of sum_c res^2
     dondata  DeepONetDataCondition    deeponet_condition.py   loss = (mean_ij |net - target|^norm)^(1/root)   (max for norm 0 = inf)
     integro  IntegroPINNCondition     condition.py            residual also receives the integral point set and the model on it
     ritz     DeepRitzCondition        condition.py            plain mean of the integrand
     param    ParameterCondition       condition.py            the penalty of the parameter, as is
     hpms     HPM_EquationLoss_at_Sampler    condition.py      residual receives coordinates, the learnable parameter and data functions
                                                               (NO model output); loss = mean over the rows of sum_c res^2
     hpmd     HPM_EquationLoss_at_DataPoints condition.py      the same on the input points of a data loader, batch by batch:
                                                               a_b = mean over batch b of res^2; one evaluation sees batch
                                                               (k mod B) and returns a_b^norm (a_b for norm inf); with
                                                               use_full_dataset  (sum_b a_b^norm / B) resp. max_b a_b; then the root
   Input functions are  fn_k(s) = FnA(k) s + FnB(k),  k in 1..5.   A FUNCTION SET is a cyclic list of draws (each a list
   of function ids) with the training-time sampling rule of DeepONet._forward_branch:
        a condition evaluated with iteration number `it` draws a NEW batch of functions iff `it` differs from the iteration
        number its function set saw last  (None is an iteration number of its own: -2);
   whatever else happened to the network in between (other conditions with other function sets), the condition computes
   with the network output FOR ITS OWN current batch of functions.
   Net[mid][k][s+1] is the OBSERVED table of the DeepONet mid for function k at location s (direct public call); the
   contraction law that ties it to branch and trunk features is C09's (DeepONet.tla).                               *)
EXTENDS Integers, Sequences, FiniteSets
FnA(k) == (k % 3) - 1
FnB(k) == ((2 * k) % 5) - 2
FnVal(k, s) == FnA(k) * s + FnB(k)
RECURSIVE SumS(_)
SumS(s) == IF s = <<>> THEN 0 ELSE Head(s) + SumS(Tail(s))
RECURSIVE MaxS(_)
MaxS(s) == IF Len(s) = 1 THEN s[1] ELSE LET m == MaxS(Tail(s)) IN IF s[1] > m THEN s[1] ELSE m
AbsI(x) == IF x < 0 THEN -x ELSE x
Pow(x, n) == IF n = 1 THEN x ELSE IF n = 2 THEN x * x ELSE x * x * x
\* ---------------- function-set machine
None == -2
FSInit == [count |-> 0, iter |-> -1]
FSTouch(fs, it) == IF it # fs.iter THEN [count |-> fs.count + 1, iter |-> it] ELSE fs
FSFix(fs) == [count |-> fs.count + 1, iter |-> fs.iter]                  \* fix_branch_input(function set)
Batch(draws, count) == draws[((count - 1) % Len(draws)) + 1]
\* ---------------- what a residual receives: flat row-major value lists
\* data function g(t) = g[1] t + g[2];  affine model u(x,t) = m[1] x + m[2] t + m[3]
G(c, s) == c.g[1] * s + c.g[2]
UA(c, x, t) == c.model[1] * x + c.model[2] * t + c.model[3]
\* pidon: rows (i, j) = (function fids[i], location pts[j])
PidonArg(c, net, fids, name, i, j) ==
    LET s == c.pts[j]  k == fids[i] IN
    CASE name = "u" -> net[c.mid][k][s + 1] [] name = "t" -> s [] name = "f" -> FnVal(k, s) [] name = "g" -> G(c, s)
PidonRes(c, net, fids, i, j) ==
    LET A(nm) == PidonArg(c, net, fids, nm, i, j) IN
    CASE c.res = "u_f" -> <<A("u") - A("f")>>
      [] c.res = "u_g" -> <<A("u") - A("g")>>
      [] c.res = "echo" -> <<2 * A("u") + 3 * A("t") + 5 * A("f") + 7 * A("g")>>
      [] c.res = "vec" -> <<A("u") - A("f"), A("u") + A("t")>>
      \* du/dt - f : the networks are affine in t (identity activations), so du/dt of function k is Net[k][2] - Net[k][1];
      \* every function has its OWN coordinates to differentiate by
      [] c.res = "dut" -> <<(net[c.mid][fids[i]][2] - net[c.mid][fids[i]][1]) - A("f")>>
PidonNeeds(res) == CASE res = "u_f" -> {"u", "f"} [] res = "u_g" -> {"u", "g"} [] res = "echo" -> {"u", "t", "f", "g"} [] res = "vec" -> {"u", "f", "t"} [] res = "dut" -> {"u", "t", "f"}
\* (number of functions * number of points) * loss
PidonLossTimesN(c, net, fids) ==
    SumS([q \in 1..(Len(fids) * Len(c.pts)) |->
            LET i == ((q - 1) \div Len(c.pts)) + 1  j == ((q - 1) % Len(c.pts)) + 1  r == PidonRes(c, net, fids, i, j)
            IN SumS([k \in DOMAIN r |-> r[k] * r[k]])])
\* the per-row error (sum over components of res^2) as a flat list, for reductions other than the mean
\* (DeepONetSingleModuleCondition with reduce_fn = sum / max)
PidonErrs(c, net, fids) ==
    [q \in 1..(Len(fids) * Len(c.pts)) |->
        LET i == ((q - 1) \div Len(c.pts)) + 1  j == ((q - 1) % Len(c.pts)) + 1  r == PidonRes(c, net, fids, i, j)
        IN SumS([k \in DOMAIN r |-> r[k] * r[k]])]
\* dondata: |constrain(net) - target|, target[i][j] = c.tgt (constant), constrain: "none" or "u*t+1"
DonOut(c, net, k, s) == IF c.res = "ut1" THEN net[c.mid][k][s + 1] * s + 1 ELSE net[c.mid][k][s + 1]
DonDist(c, net) == [q \in 1..(Len(c.fids) * Len(c.pts)) |->
                      LET i == ((q - 1) \div Len(c.pts)) + 1  j == ((q - 1) % Len(c.pts)) + 1
                      IN AbsI(DonOut(c, net, c.fids[i], c.pts[j]) - c.tgt)]
\* integro: rows r of own points <<x, t>>, integral points xi over x
IntArg(c, name, r, j) ==
    LET x == c.rows[r][1]  t == c.rows[r][2] IN
    CASE name = "u" -> UA(c, x, t) [] name = "x" -> x [] name = "t" -> t [] name = "g" -> G(c, t)
      [] name = "x_integral" -> c.ipts[j] [] name = "u_integral" -> UA(c, c.ipts[j], t)
IntRes(c, r) ==
    LET S == SumS([j \in DOMAIN c.ipts |-> IntArg(c, "u_integral", r, j)]) IN
    CASE c.res = "int" -> <<IntArg(c, "u", r, 1) - S + IntArg(c, "g", r, 1)>>
      [] c.res = "intvec" -> <<IntArg(c, "u", r, 1) - S, IntArg(c, "x", r, 1) + IntArg(c, "t", r, 1)>>
      [] c.res = "intx" -> <<IntArg(c, "u", r, 1) - SumS([j \in DOMAIN c.ipts |-> IntArg(c, "u_integral", r, j) * c.ipts[j]])>>
      \* derivatives under the integral: d/d(x_integral) of the model on the integral points (the integral points are shared by all
      \* rows: the derivative of the sum over rows is  rows * m1  at every integral point) resp. d/dt of it (t is the row's own)
      [] c.res = "intdx" -> <<IntArg(c, "u", r, 1) - Len(c.ipts) * Len(c.rows) * c.model[1]>>
      [] c.res = "intdt" -> <<IntArg(c, "u", r, 1) - Len(c.ipts) * c.model[2]>>
IntNeeds(res) == CASE res = "int" -> {"u", "u_integral", "g"} [] res = "intvec" -> {"u", "u_integral", "x", "t"} [] res = "intx" -> {"u", "u_integral", "x_integral"}
                   [] res = "intdx" -> {"u", "u_integral", "x_integral"} [] res = "intdt" -> {"u", "u_integral", "t"}
IntLossTimesN(c) == SumS([r \in DOMAIN c.rows |-> LET v == IntRes(c, r) IN SumS([k \in DOMAIN v |-> v[k] * v[k]])])
\* hpms: residual  kappa x + 3 t - g(t);  hpmd: residual  kappa x - t  on batches of bs consecutive rows
HpmSRes(c, r) == c.k * c.rows[r][1] + 3 * c.rows[r][2] - G(c, c.rows[r][2])
HpmSTimesN(c) == SumS([r \in DOMAIN c.rows |-> HpmSRes(c, r) * HpmSRes(c, r)])
HpmDRes(c, r) == c.k * c.rows[r][1] - c.rows[r][2]
HpmNB(c) == (Len(c.rows) + c.bs - 1) \div c.bs
HpmBatch(c, b) == {r \in DOMAIN c.rows : (r - 1) \div c.bs = b - 1}
\* a_b as a rational <<sum of squares, batch size>>
HpmA(c, b) == <<SumS([r \in 1..Len(c.rows) |-> IF r \in HpmBatch(c, b) THEN HpmDRes(c, r) * HpmDRes(c, r) ELSE 0]), Cardinality(HpmBatch(c, b))>>
RPow(q, n) == <<Pow(q[1], n), Pow(q[2], n)>>
RAdd(p, q) == <<p[1] * q[2] + q[1] * p[2], p[2] * q[2]>>
RLess(p, q) == p[1] * q[2] < q[1] * p[2]
RECURSIVE RSum(_)
RSum(s) == IF Len(s) = 1 THEN s[1] ELSE RAdd(s[1], RSum(Tail(s)))
RECURSIVE RMax(_)
RMax(s) == IF Len(s) = 1 THEN s[1] ELSE LET m == RMax(Tail(s)) IN IF RLess(s[1], m) THEN m ELSE s[1]
\* value before the root, as a rational; k = number of this evaluation of the condition (1, 2, ...)
HpmDValue(c, k) ==
    LET B == HpmNB(c) IN
    IF c.full THEN (IF c.norm = 0 THEN RMax([b \in 1..B |-> HpmA(c, b)])
                    ELSE LET t == RSum([b \in 1..B |-> RPow(HpmA(c, b), c.norm)]) IN <<t[1], t[2] * B>>)
    ELSE LET a == HpmA(c, ((k - 1) % B) + 1) IN IF c.norm = 0 THEN a ELSE RPow(a, c.norm)
\* ritz: integrand  u^2 - g;  param: penalty (kappa - 3)^2
RitzTimesN(c) == SumS([r \in DOMAIN c.rows |-> UA(c, c.rows[r][1], c.rows[r][2]) * UA(c, c.rows[r][1], c.rows[r][2]) - G(c, c.rows[r][2])])
=============================================================================

INIT Init
NEXT Next
CONSTRAINT Report
POSTCONDITION Post
CHECK_DEADLOCK FALSE

SPECIFICATION Spec
CONSTANTS N = 3 MaxLoss = 2 Ratios <- RatiosDef Dev = {"ad_newonly"} MaxLen = 3
INVARIANT AbsOK
INVARIANT CountInv
CHECK_DEADLOCK FALSE

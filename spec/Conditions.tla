------------------------------ MODULE Conditions ------------------------------
(* Conditions (problem/conditions/condition.py) in an exact integer universe: properties C04 and C14.
   A condition c is  [kind, rows (its OWN sampled points: sequence of <<x, t>>), model <<a, b, c>> (u = a x + b t + c),
   res (residual family), dict (id of the user dictionary it was given, 0 = none), kappa (inverse parameter, 0 = none),
   lo/hi (periodic interval)].  Data functions are affine:  F[fid] = <<p, q, r>>,  f(x, t) = p x + q t + r.
   Abs says what the residual function must RECEIVE, by name, row by row, and what loss comes back:
     x, t  the condition's own points;  u  the model at those rows;  f  the data function at THE SAME rows of THIS
     condition (whatever other conditions share the dictionary);  kappa  the parameter;
     pinn: mean over rows of the squared residual summed over components;  mean: plain mean;
     periodic: left / right values at (lo, t_j) / (hi, t_j), the left data on the left points, the right on the right. *)
EXTENDS Integers, Sequences, FiniteSets
F == <<<<2, -1, 1>>, <<-1, 3, 0>>, <<1, 1, -2>>>>
\* shared sampler objects: the successive draws (row sets <<x, t>>) of the underlying sampler.  A static sampler keeps its
\* FIRST draw for ever (StaticAbs.tla, property C15); a non-static one hands out the next draw at every call, to whichever
\* condition asks
SDraws == << <<<<<<1, 1>>, <<-2, 3>>>>, <<<<0, -1>>, <<2, 2>>>>, <<<<3, 0>>, <<-1, -1>>>>>>,
             <<<<<<2, 0>>, <<-1, 2>>, <<1, 1>>>>, <<<<0, 3>>, <<-2, -2>>, <<1, -1>>>>>>,
             <<<<<<1, 0>>, <<2, -1>>>>, <<<<-1, 3>>, <<0, 2>>>>, <<<<3, 1>>, <<-2, 0>>>>>> >>
DrawOf(sid, n) == SDraws[sid][((n - 1) % Len(SDraws[sid])) + 1]
RECURSIVE SumS(_)
SumS(s) == IF s = <<>> THEN 0 ELSE Head(s) + SumS(Tail(s))
U(c, x, t) == c.model[1] * x + c.model[2] * t + c.model[3]
Fv(fid, x, t) == F[fid][1] * x + F[fid][2] * t + F[fid][3]
\* expected value of argument `name` of the residual at row r of condition c, with its dictionary content d (name -> fid)
Arg(c, d, name, r) ==
    LET x == c.rows[r][1]  t == c.rows[r][2] IN
    CASE name = "x" -> x [] name = "t" -> t [] name = "u" -> U(c, x, t) [] name = "kappa" -> c.kappa
      [] name = "f" -> Fv(d["f"], x, t) [] name = "g" -> Fv(d["g"], x, t)
      [] name = "x_left" -> c.lo [] name = "x_right" -> c.hi
      [] name = "u_left" -> U(c, c.lo, t) [] name = "u_right" -> U(c, c.hi, t)
      [] name = "f_left" -> Fv(d["f"], c.lo, t) [] name = "f_right" -> Fv(d["f"], c.hi, t)
\* residual components at row r
Res(c, d, r) ==
    LET A(nm) == Arg(c, d, nm, r) IN
    CASE c.res = "u_f" -> <<A("u") - A("f")>>
      [] c.res = "ku_x" -> <<A("kappa") * A("u") - A("x")>>
      [] c.res = "ux_t" -> <<c.model[1] + A("t")>>                 \* du/dx + t
      [] c.res = "echo" -> <<2 * A("u") + 3 * A("x") + 5 * A("t")>>
      [] c.res = "echofg" -> <<2 * A("u") + 3 * A("x") + 5 * A("t") + 7 * A("f") + 11 * A("g")>>
      [] c.res = "vec" -> <<A("u") - A("f"), A("u") + A("x")>>
      [] c.res = "per0" -> <<A("u_left") - A("u_right")>>
      [] c.res = "per" -> <<A("u_left") - A("u_right") + A("f_left") - 2 * A("f_right")>>
      \* derivatives of the left / right outputs w.r.t. the non-periodic and the periodic coordinate: du/dt + 2 du/dt + 5 du/dx
      [] c.res = "per_d" -> <<3 * c.model[2] + 5 * c.model[1] + 0 * A("t")>>
Needs(res) == CASE res = "u_f" -> {"u", "f"} [] res = "ku_x" -> {"u", "x", "kappa"} [] res = "ux_t" -> {"u", "x", "t"}
                [] res = "echo" -> {"u", "x", "t"} [] res = "echofg" -> {"u", "x", "t", "f", "g"} [] res = "vec" -> {"u", "f", "x"}
                [] res = "per0" -> {"u_left", "u_right"} [] res = "per" -> {"u_left", "u_right", "f_left", "f_right"}
                [] res = "per_d" -> {"u_left", "u_right", "t", "x_left"}
\* n * loss as an integer
LossTimesN(c, d) ==
    LET n == Len(c.rows) IN
    IF c.kind = "mean" THEN SumS([r \in 1..n |-> Res(c, d, r)[1]])
    ELSE SumS([r \in 1..n |-> SumS([k \in DOMAIN Res(c, d, r) |-> Res(c, d, r)[k] * Res(c, d, r)[k]])])
=============================================================================

SPECIFICATION Spec
CONSTANTS Inf = 1000 Depth = 4 Ivs = {1,2,3,1000} AdaptiveN = 2 MaxLoss = 1 Rand = FALSE Kinds = {"static","plain","adaptive"}
CONSTRAINT Emit
POSTCONDITION Post
CHECK_DEADLOCK FALSE

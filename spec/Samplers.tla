------------------------------ MODULE Samplers ------------------------------
(* Row bookkeeping of point samplers and their algebra (problem/samplers/**, property C02).
   Sampler AST (field k = kind):
     leaf(kind, v, n, dom)   kind in {random, grid, gauss, lhs, expint, filtered, data}; v = its space variable;
                             n = points per parameter row; dom in {"fix", "mov"}: "mov" is the interval
                             [10 t, 10 t + 1], so a point REVEALS the value of t it was sampled for
     prod(a, b)  sum(a, b)  append(a, b)  static(a)
   A returned table is a sequence of rows; a row maps column names (space variables and parameter names) to
   cells  [vid |-> value id, dep |-> revealed t (or -1), did |-> data id (or -1), fr12 |-> position in the unit
   interval in twelfths (or -1), half |-> 1 iff in the upper half (the filter of filtered leaves)].
   The Abs rules say, for a parameter table P (sequence of rows over the parameter columns):
     leaf      exactly n rows per parameter row; rows i*n+1..(i+1)*n carry parameter row i unchanged; a "mov" leaf
               is sampled FOR that parameter row; a grid leaf gives the complete grid per parameter row; a data
               leaf meshes its stored rows with the parameter rows in the same row-major convention
     prod(a,b) = a sampled with the rows of (b sampled with P) as parameters: every row of b gets a FULL sample of a
     sum       concatenation;   append  column stack of equally long samples;   static  the cached table
     len(s)    = number of rows of a parameter-free call                                                *)
EXTENDS Integers, Sequences, FiniteSets
Range(s) == {s[i] : i \in DOMAIN s}

RECURSIVE Cols(_)
Cols(s) == CASE s.k = "leaf" -> {s.v}
             [] s.k \in {"prod", "append"} -> Cols(s.a) \cup Cols(s.b)
             [] s.k = "sum" -> Cols(s.a)
             [] s.k = "static" -> Cols(s.a)
\* rows per parameter row
RECURSIVE PerRow(_)
PerRow(s) == CASE s.k = "leaf" -> s.n
               [] s.k = "prod" -> PerRow(s.a) * PerRow(s.b)
               [] s.k = "sum" -> PerRow(s.a) + PerRow(s.b)
               [] s.k = "append" -> PerRow(s.a)
               [] s.k = "static" -> PerRow(s.a)
LenSpec(s) == PerRow(s)
Count(s, k) == PerRow(s) * (IF k = 0 THEN 1 ELSE k)

Restrict(row, C) == [c \in C \cap DOMAIN row |-> row[c]]
PCols(P) == IF P = <<>> THEN {} ELSE DOMAIN P[1]
SameOn(r1, r2, C) == \A c \in C : r1[c].vid = r2[c].vid
K(P) == IF P = <<>> THEN 1 ELSE Len(P)
\* parameter row that row j (1-based) of a table with m rows per parameter row belongs to
PIdx(j, m) == ((j - 1) \div m) + 1

\* the parameter table (restricted to columns BC) a table of sampler a was sampled for, nbk = its number of rows:
\* block-structured samplers repeat each parameter row PerRow(a) times; a sum is the concatenation of its operands' tables
RECURSIVE RecoverB(_, _, _, _)
RecoverB(a, rows, nbk, BC) ==
    IF a.k = "sum" THEN RecoverB(a.a, SubSeq(rows, 1, PerRow(a.a) * nbk), nbk, BC)
    ELSE IF a.k = "static" THEN RecoverB(a.a, rows, nbk, BC)
    ELSE [i \in 1..nbk |-> Restrict(rows[(i - 1) * PerRow(a) + 1], BC)]
\* the clause a table violates for sampler s and parameter table P ("ok" if none)
RECURSIVE Clause(_, _, _)
Clause(s, rows, P) ==
  IF Len(rows) # Count(s, Len(P)) THEN "row-count"
  ELSE IF \E j \in DOMAIN rows : ~(Cols(s) \cup PCols(P) \subseteq DOMAIN rows[j]) THEN "space"
  ELSE IF s.k = "leaf" /\ P # <<>> /\ \E j \in DOMAIN rows : ~SameOn(rows[j], P[PIdx(j, PerRow(s))], PCols(P)) THEN "parameter-pairing"
  ELSE
  CASE s.k = "leaf" ->
         IF s.dom = "mov" /\ \E j \in DOMAIN rows : rows[j][s.v].dep # rows[j]["t"].vid THEN "sampled-for-another-parameter-row"
         ELSE IF s.kind \in {"grid", "gridflt"} /\ \E i \in 1..K(P) :
                   {rows[(i - 1) * s.n + j][s.v].fr12 * (s.n + 1) : j \in 1..s.n} # {12 * r : r \in 1..s.n} THEN "incomplete-grid"
         ELSE IF s.kind = "data" /\ \E j \in DOMAIN rows : rows[j][s.v].did # ((j - 1) % s.n) + 1 THEN "data-row-order"
         ELSE IF s.kind = "filtered" /\ \E j \in DOMAIN rows : rows[j][s.v].half # 1 THEN "filter-violated"
         ELSE IF s.kind = "narrow" /\ \E j \in DOMAIN rows : rows[j][s.v].top # 1 THEN "filter-violated"
         ELSE "ok"
    [] s.k = "prod" ->
         LET na == PerRow(s.a)
             nb == Len(rows) \div na
             BC == Cols(s.b) \cup PCols(P)
             B == RecoverB(s.a, rows, nb, BC)
             cb == Clause(s.b, B, P)
         IN IF cb # "ok" THEN "second-factor:" \o cb
            ELSE LET ca == Clause(s.a, [j \in DOMAIN rows |-> Restrict(rows[j], Cols(s.a) \cup BC)], B) IN
                 IF ca # "ok" THEN "first-factor:" \o ca ELSE "ok"
    [] s.k = "sum" ->
         LET ma == Count(s.a, Len(P))
             ca == Clause(s.a, SubSeq(rows, 1, ma), P)
             cb == Clause(s.b, SubSeq(rows, ma + 1, Len(rows)), P)
         IN IF ca # "ok" THEN "sum-first:" \o ca ELSE IF cb # "ok" THEN "sum-second:" \o cb ELSE "ok"
    [] s.k = "append" ->
         LET ca == Clause(s.a, [j \in DOMAIN rows |-> Restrict(rows[j], Cols(s.a) \cup PCols(P))], P)
             cb == Clause(s.b, [j \in DOMAIN rows |-> Restrict(rows[j], Cols(s.b) \cup PCols(P))], P)
         IN IF ca # "ok" THEN "append-first:" \o ca ELSE IF cb # "ok" THEN "append-second:" \o cb ELSE "ok"
    [] s.k = "static" -> Clause(s.a, rows, P)
\* two tables are the same table (value ids)
SameTable(r1, r2) == Len(r1) = Len(r2) /\ \A j \in DOMAIN r1 : DOMAIN r1[j] = DOMAIN r2[j] /\ SameOn(r1[j], r2[j], DOMAIN r1[j])
=============================================================================

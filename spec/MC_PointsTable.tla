--------------------------- MODULE MC_PointsTable ---------------------------
(* Design level: algebraic laws of the table semantics, checked by TLC over ALL tables with spaces over
   <= 3 variables of dims 1..2 in every order and 1..3 rows.  These are the laws property C12 names; the trace
   specification then holds the real Points objects to the same operators. *)
EXTENDS PointsTable, TLC
CONSTANTS MaxRows, MaxVarsU
VARIABLES t, u, step
vars == <<t, u, step>>
Vars == {"x", "t", "k"}
Orders == UNION {{s \in [1..m -> Vars] : \A i, j \in 1..m : i # j => s[i] # s[j]} : m \in 1..3}
Spaces == UNION {{[i \in DOMAIN o |-> <<o[i], d[i]>>] : d \in [DOMAIN o -> 1..2]} : o \in Orders}
TabOf(sp, n, base) == [sp |-> sp, sh |-> <<n>>, c |-> [r \in 1..n |-> [j \in 1..SDim(sp) |-> base + 100 * r + j]]]
Init == /\ step = 0
        /\ \E sp \in Spaces, n \in 1..MaxRows : t = TabOf(sp, n, 0)
        /\ \E sp \in {q \in Spaces : Len(q) <= MaxVarsU}, n \in 1..MaxRows : u = TabOf(sp, n, 1000)
Next == step = 0 /\ step' = 1 /\ UNCHANGED <<t, u>>
Spec == Init /\ [][Next]_vars
AllNames(sp) == SNames(sp)
Perms(sp) == {s \in [DOMAIN sp -> Range(SNames(sp))] : \A i, j \in DOMAIN sp : i # j => s[i] # s[j]}
\* round trip: building from coordinates in ANY order and selecting the original order gives the table back
RoundTrip == \A p \in Perms(t.sp) : Get(FromCoords(t, p), <<>>, [k |-> "list", ns |-> SNames(t.sp)]) = t
\* selecting names returns exactly those groups in the requested order, with matching space and dimension
SelectLaw == \A p \in Perms(t.sp) :
                LET g == Get(t, <<>>, [k |-> "list", ns |-> p]) IN
                /\ SNames(g.sp) = p /\ SDim(g.sp) = SDim(t.sp) /\ g.sh = t.sh
                /\ \A i \in DOMAIN p : Get(g, <<>>, [k |-> "name", n |-> p[i]]) = Get(t, <<>>, [k |-> "name", n |-> p[i]])
\* row slicing and column selection commute
Commute == \A n \in Range(SNames(t.sp)), a \in {0, 1}, b \in {1, 2, 3} :
              LET rs == [k |-> "slice", a |-> a, b |-> b, s |-> 1, i |-> 0, ix |-> <<>>, m |-> <<>>]
                  cs == [k |-> "name", n |-> n]
                  nc == [k |-> "none"] IN
              Get(Get(t, <<rs>>, nc), <<>>, cs) = Get(Get(t, <<>>, cs), <<rs>>, nc) /\ Get(t, <<rs>>, cs) = Get(Get(t, <<rs>>, nc), <<>>, cs)
\* join: names disjoint => columns of both, space = product; selecting back the parts gives the operands
JoinLaw == JoinValid(t, u) =>
              LET j == Join(t, u) IN
              /\ j.sp = SProd(t.sp, u.sp)
              /\ Get(j, <<>>, [k |-> "list", ns |-> SNames(t.sp)]) = t
              /\ Get(j, <<>>, [k |-> "list", ns |-> SNames(u.sp)]) = u
\* space product: merges equal names by adding dimensions, keeps first-occurrence order, dim is additive
ProdLaw == LET p == SProd(t.sp, u.sp) IN
           /\ SDim(p) = SDim(t.sp) + SDim(u.sp)
           /\ SContains(p, t.sp) /\ SContains(p, u.sp)
           /\ \A i \in DOMAIN t.sp : p[i][1] = t.sp[i][1]
           /\ \A i, j \in DOMAIN p : i # j => p[i][1] # p[j][1]
\* equality is sensitive to variable order
EqLaw == \A p \in Perms(t.sp) : TEq(Get(t, <<>>, [k |-> "list", ns |-> p]), t) <=> (p = SNames(t.sp))
\* concatenation and repeat keep rows intact
CatLaw == CatValid(t, u) => LET c == Cat(t, u) IN
             /\ Get(c, <<[k |-> "slice", a |-> 0, b |-> t.sh[1], s |-> 1, i |-> 0, ix |-> <<>>, m |-> <<>>]>>, [k |-> "none"]) = t
             /\ Get(c, <<[k |-> "slice", a |-> t.sh[1], b |-> None, s |-> 1, i |-> 0, ix |-> <<>>, m |-> <<>>]>>, [k |-> "none"]) = u
RepLaw == Repeat(t, 2) = Cat(t, t)
=============================================================================

----------------------------- MODULE MC_Samplers -----------------------------
(* Design level: the tables the code's algorithms build (Impl) satisfy the row rules of Samplers.tla (Abs), for
   every sampler AST of the generator and every parameter table.
   Impl, as in sampler_base.py:
     independent leaf  : n points sampled ONCE, points.repeat(k) joined with repeat_interleave(params, n)
     dependent leaf    : loop over the parameter rows, n fresh points for each, params repeated n times
     data leaf         : points.repeat(k) joined with repeat_interleave(params, m)
     ProductSampler    : b.sample_points(P), then a.sample_points(b_points)
     ConcatSampler     : a(P) | b(P);  AppendSampler : a(P).join(b(P)) on the non-parameter columns;  static: the table
   Deviations (Dev): "params_repeat" (params tiled instead of interleaved), "prod_outer_params" (a sampled with the
   outer P instead of b's rows), "dep_row0" (dependent leaf sampled for the first row only).               *)
EXTENDS Gen_C02
CONSTANTS Dev
VARIABLES sc, step
Cell(vid, dep, did, rank) == [vid |-> vid, dep |-> dep, did |-> did, fr12 |-> rank, half |-> 1, top |-> 1]
Code(s) == (CASE s.v = "x" -> 1 [] s.v = "y" -> 2 [] OTHER -> 3) * 100000
PRow(P, i, n) == IF "params_repeat" \in Dev THEN P[((i - 1) % Len(P)) + 1] ELSE P[PIdx(i, n)]
RECURSIVE ImplRows(_, _)
ImplRows(s, P) ==
  CASE s.k = "leaf" ->
         LET k == K(P)  n == s.n IN
         [j \in 1..(n * k) |->
            LET i == PIdx(j, n)  r == ((j - 1) % n) + 1
                prow == IF P = <<>> THEN <<>> ELSE PRow(P, j, n)
                tval == IF s.dom = "mov" THEN (IF "dep_row0" \in Dev THEN P[1]["t"].vid ELSE prow["t"].vid) ELSE 0
                cell == CASE s.kind = "data" -> Cell(IF s.v = "t" THEN r ELSE Code(s) + r, 0, r, -1)
                          [] s.kind \in {"grid", "gridflt"} -> Cell(Code(s) + tval * 100 + r, tval, -1, (12 * r) \div (s.n + 1))
                          [] s.kind = "filtered" -> Cell(Code(s) + (IF s.dom = "mov" THEN i * 100 ELSE 0) + r, tval, -1, 1)
                          [] OTHER -> Cell(Code(s) + (IF s.dom = "mov" THEN i * 100 ELSE 0) + r, tval, -1, -1)
            IN [c \in {s.v} \cup PCols(P) |-> IF c = s.v THEN cell ELSE prow[c]]]
    [] s.k = "prod" -> LET B == ImplRows(s.b, P) IN
                       IF "prod_outer_params" \in Dev
                       THEN LET A == ImplRows(s.a, P)  na == PerRow(s.a) IN
                            [j \in 1..(na * Len(B)) |-> [c \in DOMAIN B[1] \cup {cc \in Cols(s.a) : TRUE} |->
                                 IF c \in DOMAIN B[1] THEN B[PIdx(j, na)][c] ELSE A[((j - 1) % Len(A)) + 1][c]]]
                       ELSE ImplRows(s.a, B)
    [] s.k = "sum" -> ImplRows(s.a, P) \o ImplRows(s.b, P)
    [] s.k = "append" -> LET A == ImplRows(s.a, P)  B == ImplRows(s.b, P) IN
                         [j \in DOMAIN A |-> [c \in DOMAIN A[j] \cup DOMAIN B[j] |-> IF c \in DOMAIN A[j] THEN A[j][c] ELSE B[j][c]]]
    [] s.k = "static" -> ImplRows(s.a, P)
PTab(pv, k) == [i \in 1..k |-> [c \in {pv} |-> Cell(<<2, 1, 3>>[i], -1, IF pv = "t" THEN <<2, 1, 3>>[i] ELSE -1, -1)]]
Init == sc \in Scen /\ step = 0
Next == step = 0 /\ step' = 1 /\ UNCHANGED sc
Spec == Init /\ [][Next]_<<sc, step>>
AbsOK == Clause(sc.smp, ImplRows(sc.smp, PTab(sc.pvar, sc.k)), PTab(sc.pvar, sc.k)) = "ok"
LenOK == (UsesMov(sc.smp) /\ ~HasT(sc.smp)) \/ Len(ImplRows(sc.smp, <<>>)) = LenSpec(sc.smp)
=============================================================================

----------------------------- MODULE MC_UserFun -----------------------------
(* Design level: the wrapper heap as the code manages it (Impl: re-wrapping ALIASES the defaults dict,
   partially_evaluate deep-copies, set_default filters by declared names) against the Abs rules of
   UserFun.tla, for all histories up to MaxLen over a small universe. *)
EXTENDS UserFun, TLC
CONSTANTS Names, Vals, MaxLen, MaxW, Dev
VARIABLES heap,    \* sequence of wrappers [args, dptr]
          dicts,   \* sequence of defaults dicts (dptr indexes it)
          len, ok
vars == <<heap, dicts, len, ok>>
Maps(S) == UNION {[D -> Vals] : D \in SUBSET S}
View(i) == [args |-> heap[i].args, defaults |-> dicts[heap[i].dptr]]
Sigs == {<<[n |-> "x", d |-> FALSE, v |-> 0], [n |-> "t", d |-> TRUE, v |-> 1]>>,
         <<[n |-> "t", d |-> FALSE, v |-> 0], [n |-> "x", d |-> FALSE, v |-> 0]>>,
         <<[n |-> "k", d |-> TRUE, v |-> 0], [n |-> "x", d |-> TRUE, v |-> 1]>>}
Init == heap = <<>> /\ dicts = <<>> /\ len = 0 /\ ok = TRUE
DoWrap == \E sig \in Sigs : /\ Len(heap) < MaxW
             /\ LET w == Wrap(sig) IN
                /\ dicts' = Append(dicts, IF "defaults_head" \in Dev
                                           THEN [a \in {sig[i].n : i \in 1..Cardinality(DOMAIN w.defaults)} |-> 1]
                                           ELSE w.defaults)
                /\ heap' = Append(heap, [args |-> w.args, dptr |-> Len(dicts) + 1])
                /\ ok' = (dicts'[Len(dicts')] = w.defaults)
DoRewrap == \E i \in DOMAIN heap : /\ Len(heap) < MaxW
               /\ heap' = Append(heap, heap[i])          \* same dptr: aliasing, as in UserFunction.__init__
               /\ UNCHANGED dicts /\ ok' = TRUE
DoPE == \E i \in DOMAIN heap, B \in Maps(Names) :
           /\ Len(heap) < MaxW /\ ~CanCall(View(i), B)
           /\ LET nd == Merge(dicts[heap[i].dptr], Restrict(B, Range(heap[i].args))) IN
              IF "pe_nocopy" \in Dev
              THEN /\ dicts' = [dicts EXCEPT ![heap[i].dptr] = nd] /\ heap' = Append(heap, heap[i])
                   /\ ok' = FALSE \/ ok' = (dicts' = dicts)        \* frame: the original must be unchanged
              ELSE /\ dicts' = Append(dicts, nd)
                   /\ heap' = Append(heap, [args |-> heap[i].args, dptr |-> Len(dicts) + 1])
                   /\ ok' = PELaw(View(i), B, Maps(Names))
DoSetDef == \E i \in DOMAIN heap, B \in Maps(Names) :
           /\ dicts' = [dicts EXCEPT ![heap[i].dptr] = Merge(@, Restrict(B, Range(heap[i].args)))]
           /\ UNCHANGED heap /\ ok' = TRUE
Next == /\ len < MaxLen /\ len' = len + 1
        /\ (DoWrap \/ DoRewrap \/ DoPE \/ DoSetDef)
Spec == Init /\ [][Next]_vars
OK == ok
\* calling never needs more than the names the wrapper declares
CallInv == \A i \in DOMAIN heap : \A M \in Maps(Names) :
              CanCall(View(i), M) => DOMAIN Recv(View(i), M) = Range(heap[i].args)
=============================================================================

CONSTANTS MaxN = 7 MaxB = 8 AllFlags = TRUE

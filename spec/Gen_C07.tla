----------------------------- MODULE Gen_C07 -----------------------------
(* Configurations for C07 / C19: sets of 1-3 training conditions with weights, 0-1 validation conditions, SGD with
   lr in {1/4, 1/2}, momentum in {0, 1/2}, StepLR(gamma 1/2) or none, N steps.  Only configurations whose whole
   reference trajectory stays inside the 32-bit rational budget are emitted (TLC computes the trajectory). *)
EXTENDS Training, TLC, Json, IOUtils, SequencesExt, FiniteSets
CONSTANTS NSteps, CkMode
Cond(kd, xs, p, q, c, wn, wd) == [kind |-> kd, xs |-> xs, p |-> p, q |-> q, c |-> c, wn |-> wn, wd |-> wd, bs |-> 0, share |-> 0]
Fit1 == Cond("fit", <<1, -1>>, 2, 1, 0, 1, 1)
Fit2 == Cond("fit", <<1, -1, 2, 0>>, -1, 2, 0, 1, 2)
Inv == Cond("inv", <<1, -1>>, 0, 0, 0, 1, 2)
Pen == Cond("pen", <<>>, 0, 0, 1, 1, 2)
Ada == Cond("adapt", <<1, -1>>, 1, 0, 0, 1, 1)
Ada2 == Cond("adapt", <<1, -1>>, 0, 1, 0, 1, 1)          \* non-zero residual at a0 = 1 as well (the refitted runs start there)
Ada3 == Cond("adapt", <<1, 0>>, 2, 0, 0, 1, 2)
ValC == Cond("fit", <<3>>, 0, 0, 0, 1, 1)
Zero == Cond("fit", <<2, -2>>, 1, 0, 0, 0, 1)             \* weight 0: monitored only, but evaluated once per step like every other
\* data fitted in mini-batches of two (three points: batches {1, -1}, {2}, cyclically); ValD is a validation DataCondition on the SAME loader
\* object as the first training condition (share = 1)
Data1 == [Cond("data", <<1, -1, 2>>, 2, 1, 0, 1, 1) EXCEPT !.bs = 2]
Data2 == [Cond("data", <<1, 2, -1, 0>>, -1, 1, 0, 1, 2) EXCEPT !.bs = 3]
Data3 == [Cond("data", <<1, -1, 2>>, 2, 1, 0, 1, 1) EXCEPT !.bs = 1]          \* three batches: a first fit of four steps ends inside the second pass
ValD == [Cond("data", <<1, -1, 2>>, 2, 1, 0, 1, 1) EXCEPT !.bs = 2, !.share = 1]
\* a validation condition that only MONITORS the inverse parameter (a ParameterCondition on the same Parameter object)
ValP == Cond("pen", <<>>, 0, 0, 2, 1, 1)
TrainSets == {<<Fit1>>, <<Fit2>>, <<Fit1, Pen, Inv>>, <<Inv, Pen>>, <<Ada>>, <<Fit2, Ada>>, <<Pen, Fit1>>, <<Ada, Inv, Pen>>, <<Fit1, Fit2>>,
              <<Fit1, Zero>>, <<Zero, Inv, Pen>>, <<Data1>>, <<Data2, Pen, Inv>>, <<Data1, Fit2>>, <<Data3>>, <<Data3, Pen, Inv>>, <<Ada2>>, <<Ada3>>, <<Ada3, Pen>>}
Cfgs == {[a0 |-> a0, b0 |-> 0, k0 |-> 2, nl |-> 2, lrn |-> 1, lrd |-> lrd, mun |-> mun, mud |-> 2, ssize |-> ss, freq |-> fr,
          gn |-> 1, gd |-> 2, N |-> NSteps, train |-> tr, val |-> vl, val_interval |-> 2, ckint |-> ck, kill |-> kl, refit |-> rf, opt |-> op] :
            op \in (IF CkMode THEN {"sgd", "two"} ELSE {"sgd"}),        \* "two": the two-evaluation optimizer of Training.tla (crash / resume only)
            rf \in (IF CkMode THEN {FALSE} ELSE BOOLEAN),
            a0 \in {1, -1}, lrd \in {4, 2}, mun \in {0, 1}, ss \in {0, 1, 2}, fr \in {1, 2}, tr \in TrainSets, vl \in {<<>>, <<ValC>>, <<ValD>>, <<ValP>>},
            ck \in (IF CkMode THEN {1, 2} ELSE {0}), kl \in (IF CkMode THEN 1..(NSteps - 1) ELSE {0})}
Valid(cfg) == (cfg.ssize = 0 => cfg.freq = 1) /\ (cfg.opt = "two" => cfg.mun = 0) /\ (CkMode => (cfg.kill - 1) % cfg.ckint = 0 /\ cfg.val = <<>>)
              /\ (cfg.refit => cfg.val = <<>> /\ cfg.a0 = 1)
              /\ (cfg.val = <<ValD>> => cfg.train[1].kind = "data" /\ cfg.train[1].bs = 2)
              /\ (cfg.val = <<ValP>> => HasKind(cfg.train, "inv") \/ HasKind(cfg.train, "pen"))
              /\ (CkMode => \A j \in DOMAIN cfg.train : cfg.train[j].kind # "data")
RECURSIVE TrajFits(_, _)
TrajFits(cfg, n) == IF n = 0 THEN TRUE ELSE TrajFits(cfg, n - 1) /\ StateFits(AfterR(cfg, n))
\* a long run at the optimum (zero gradients): only the learning-rate schedule moves, over more than 1000 steps with a
\* scheduler frequency that does not divide 1000
Long == [a0 |-> 2, b0 |-> 1, k0 |-> 2, nl |-> 2, lrn |-> 1, lrd |-> 4, mun |-> 0, mud |-> 2, ssize |-> 1, freq |-> 300,
         gn |-> 1, gd |-> 2, N |-> 1250, train |-> <<Fit1>>, val |-> <<>>, val_interval |-> 2, ckint |-> 0, kill |-> 0, refit |-> FALSE, opt |-> "sgd"]
Scen == {[cfg |-> c] : c \in {x \in Cfgs : Valid(x) /\ TrajFits(x, IF x.refit THEN 2 * NSteps ELSE NSteps)}} \cup (IF CkMode THEN {} ELSE {[cfg |-> Long]})
ASSUME ndJsonSerialize(IOEnv.OUT_FILE, SetToSeq(Scen)) /\ PrintT(<<"SCENARIOS", Cardinality(Scen), Cardinality({x \in Cfgs : Valid(x)})>>)
==========================================================================

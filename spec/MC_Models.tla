----------------------------- MODULE MC_Models -----------------------------
(* Design level: row-wise functions of named variables are closed under Sequential and Parallel composition, and the
   derived spaces are consistent.  Parts are modelled as arbitrary functions on a finite value set; TLC checks for
   ALL such parts that the composite is Functional on every pair of presentations. *)
EXTENDS Models, TLC
VARIABLES f, g, step
Vals == 0..1
Init == f \in [Vals -> Vals] /\ g \in [Vals \X Vals -> Vals] /\ step = 0
Next == step = 0 /\ step' = 1 /\ UNCHANGED <<f, g>>
Spec == Init /\ [][Next]_<<f, g, step>>
\* a presentation is a sequence of named rows (a, b); Sequential = g(f(a), b), Parallel = <<f(a), g(a, b)>>
Rows == Vals \X Vals
SeqOut(r) == g[<<f[r[1]], r[2]>>]
ParOut2(r) == <<f[r[1]], g[r]>>
Pres == UNION {[1..n -> Rows] : n \in 1..2}
ObsOf(p, out(_)) == [i \in DOMAIN p |-> [rid |-> p[i], out |-> <<out(p[i])>>]]
SeqFunctional == \A p, q \in Pres : Functional(ObsOf(p, SeqOut) \o ObsOf(q, SeqOut), 0)
ParFunctional == \A p, q \in Pres : \A i \in DOMAIN p, j \in DOMAIN q : p[i] = q[j] => ParOut2(p[i]) = ParOut2(q[j])
SpacesOK == LET A == [k |-> "leaf", ins |-> <<<<"x", 2>>, <<"t", 1>>>>, out |-> <<<<"u", 1>>>>]
                B == [k |-> "leaf", ins |-> <<<<"t", 1>>, <<"k", 1>>>>, out |-> <<<<"v", 2>>>>]
                P == [k |-> "par", ms |-> <<A, B>>]
            IN InSpace(P) = <<<<"x", 2>>, <<"t", 1>>, <<"k", 1>>>> /\ OutSpace(P) = <<<<"u", 1>>, <<"v", 2>>>>
               /\ InSpace([k |-> "seq", ms |-> <<A, [k |-> "leaf", ins |-> <<<<"u", 1>>>>, out |-> <<<<"w", 1>>>>]>>]) = A.ins
=============================================================================

CONSTANTS Big = TRUE

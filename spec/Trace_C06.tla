---------------------------- MODULE Trace_C06 ----------------------------
(* Trace validation for C06: at every boundary sample P of the object's own boundary samplers, the reported normal
   n (fixed point 1/256) is finite, has unit length, and points OUT of the set Geometry.tla denotes:
        P + eps*n is outside   and   P - eps*n is inside        (eps = 8/256)
   Samples closer than 2*eps to a second boundary feature (another primitive's boundary: a corner of the Boolean
   combination) are skipped and counted; the property is independent of how the normal is computed.        *)
EXTENDS Geometry, TLC, TLCExt, Json, IOUtils
Traces == JsonDeserialize(IOEnv.TRACE_FILE)
VARIABLES tid, verdict, dev, judged
StepE == 8
NaNv == 1073741824
E(t) == t.scenario.expr
Q(p) == [val |-> p.val, w |-> p.w]
V(e) == SpaceOf(e)[1][1]
RoundDiv(a, b) == IF a >= 0 THEN (2 * a + b) \div (2 * b) ELSE -((-2 * a + b) \div (2 * b))
Stepped(e, q, nv, sg, ee) == [q EXCEPT !.val[V(e)] = [i \in DOMAIN @ |-> @[i] + sg * RoundDiv(ee * nv[i], 256)]]
\* near a corner of the same primitive a step of 8/256 may cross the adjacent edge: the test has to hold for one of
\* the step sizes 8, 4, 2 (a normal that points inward or along the boundary fails for all of them)
OutwardAt(e, q, nv, ee) == ~In(e, Stepped(e, q, nv, 1, ee)) /\ In(e, Stepped(e, q, nv, -1, ee))
Finite(nv) == \A i \in DOMAIN nv : nv[i] # NaNv /\ nv[i] # -NaNv
Norm2(nv) == SumOver(DOMAIN nv, [i \in DOMAIN nv |-> nv[i] * nv[i]])
UnitOK(nv) == LET d == Norm2(nv) - 65536 IN d <= 1536 /\ d >= -1536          \* | |n| - 1 | <~ 0.012
\* locally flat: of the 8 points of the ring at distance 6/256 between 3 and 5 are inside (a corner of the SAME primitive
\* gives fewer or more); only then a step along/against the normal is a meaningful test   (2-D variables)
Ring == {<<6, 0>>, <<-6, 0>>, <<0, 6>>, <<0, -6>>, <<4, 4>>, <<4, -4>>, <<-4, 4>>, <<-4, -4>>}
\* 3-D variables: the 48 points (+-a, +-b, +-c), (a, b, c) a permutation of (6, 2, 1) -- antipodal pairs none of which lies in a
\* coordinate plane or a plane x+-y+-z = const through the sample, so on a flat piece of surface exactly one point of every
\* pair is inside (24); at an edge or a vertex of a polyhedron far fewer or far more are
Ring3 == {<<s[1] * p[1], s[2] * p[2], s[3] * p[3]>> : s \in {-1, 1} \X {-1, 1} \X {-1, 1},
                                                      p \in {<<6, 2, 1>>, <<6, 1, 2>>, <<2, 6, 1>>, <<1, 6, 2>>, <<2, 1, 6>>, <<1, 2, 6>>}}
Flat(e, q) == IF Len(q.val[V(e)]) = 2
              THEN LET c == Cardinality({d \in Ring : In(e, [q EXCEPT !.val[V(e)] = <<@[1] + d[1], @[2] + d[2]>>])}) IN c >= 3 /\ c <= 5
              ELSE IF Len(q.val[V(e)]) = 3
              THEN LET c == Cardinality({d \in Ring3 : In(e, [q EXCEPT !.val[V(e)] = <<@[1] + d[1], @[2] + d[2], @[3] + d[3]>>])}) IN c >= 20 /\ c <= 28
              ELSE TRUE
\* clause for one sample; "skip" when not judged
PointClause(e, q, nv) ==
    IF ~Finite(nv) THEN "normal-not-finite"
    ELSE IF ~UnitOK(nv) THEN "normal-not-unit"
    ELSE IF ~NearBdBox(e, q, 2) THEN "skip"                       \* not a boundary point of the set (C01 judges that)
    ELSE IF LeafBdCount(e, q, 2 * StepE) >= 2 THEN "skip"          \* a second feature within 2*eps
    ELSE IF ~Flat(e, q) THEN "skip"                                \* corner of the primitive itself
    ELSE IF \E ee \in {8, 4, 2} : OutwardAt(e, q, nv, ee) THEN "ok"
    ELSE IF In(e, Stepped(e, q, nv, 1, 4)) THEN "normal-step-stays-inside"
    ELSE "step-against-normal-is-outside"
\* a ball whose radius function is not positive at the parameter row of a sample set has no boundary to speak of (radius 0:
\* one point, no normal direction; negative radius: not a domain): such sets are outside the input universe and not judged
RECURSIVE DegBall(_, _)
DegBall(e, q) ==
    CASE e.k \in {"circle", "sphere"} -> Aff(e.r, q) <= 0
      [] e.k \in {"union", "cut", "and"} -> DegBall(e.l, q) \/ DegBall(e.r, q)
      [] OTHER -> FALSE
QofRow(e, row) == [val |-> [n \in FreeVars(e) |-> <<row[n]>>], w |-> 1]
\* (a set without points -- the call failed -- is located by its logged parameter row; a set over several rows by any of the rows)
SetDeg(e, st) == IF st.pts # <<>> THEN \E i \in DOMAIN st.pts : DegBall(e, Q(st.pts[i]))
                 ELSE IF FreeVars(e) \subseteq DOMAIN st.prm THEN DegBall(e, QofRow(e, st.prm))
                 ELSE \E row \in [FreeVars(e) -> {0, 256, 512}] : DegBall(e, QofRow(e, row))
SetClauses(e, st) == {PointClause(e, Q(st.pts[i]), st.normals[i]) : i \in DOMAIN st.pts}
Check(t) ==
    IF "driver_error" \in DOMAIN t THEN <<"driver-error", "", 0>>
    ELSE IF t.bd_exc # "" THEN <<"ok", "", 0>>
    ELSE LET e == E(t)
             J == {j \in DOMAIN t.sets : ~SetDeg(e, t.sets[j])}
             bad == {<<j, i>> \in J \X (1..40) : t.sets[j].exc = "" /\ t.sets[j].nexc = "" /\ i \in DOMAIN t.sets[j].pts
                        /\ PointClause(e, Q(t.sets[j].pts[i]), t.sets[j].normals[i]) \notin {"ok", "skip"}}
             nj == Cardinality({<<j, i>> \in J \X (1..40) : t.sets[j].exc = "" /\ t.sets[j].nexc = "" /\ i \in DOMAIN t.sets[j].pts
                                    /\ PointClause(e, Q(t.sets[j].pts[i]), t.sets[j].normals[i]) # "skip"})
         IN IF \E j \in J : t.sets[j].exc = "" /\ t.sets[j].nexc # "" THEN <<"normal-failed:" \o t.sets[CHOOSE j \in J : t.sets[j].exc = "" /\ t.sets[j].nexc # ""].nexc, "", nj>>
            ELSE IF \E j \in J : t.sets[j].exc = "" /\ ~t.sets[j].shape_ok THEN <<"one-normal-per-point", "", nj>>
            \* the 4096 times smaller copy: the squared length at 1/4096 is within 0.4 % of 1 (the coarser test above allows 2.3 %)
            ELSE IF \E j \in J : "len2_4096" \in DOMAIN t.sets[j] /\ t.sets[j].exc = "" /\ t.sets[j].nexc = ""
                       /\ \E i \in DOMAIN t.sets[j].len2_4096 : LET d == t.sets[j].len2_4096[i] - 16777216 IN d > 67108 \/ d < -67108
                 THEN <<"normal-not-unit(tiny shape)", "", nj>>
            ELSE IF bad # {} THEN LET b == CHOOSE b \in bad : TRUE IN
                 <<PointClause(e, Q(t.sets[b[1]].pts[b[2]]), t.sets[b[1]].normals[b[2]]) \o "@set" \o ToString(b[1]) \o "/point" \o ToString(b[2]), "", nj>>
            ELSE <<"ok", "", nj>>
Init == tid \in 1..Len(Traces) /\ LET r == Check(Traces[tid]) IN verdict = r[1] /\ dev = r[2] /\ judged = r[3]
Next == FALSE /\ UNCHANGED <<tid, verdict, dev, judged>>
Report == /\ TLCSet(1, TLCGet(1) \cup {tid})
          /\ TLCSet(5, TLCGet(5) + judged)
          /\ (verdict = "ok" \/ PrintT(<<"REJ", Traces[tid].tid, verdict, dev>>))
Post == PrintT(<<"VALIDATED", Cardinality(TLCGet(1))>>) /\ PrintT(<<"JUDGED", TLCGet(5)>>)
ASSUME TLCSet(1, {}) /\ TLCSet(5, 0)
==========================================================================

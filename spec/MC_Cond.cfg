SPECIFICATION Spec
CONSTANTS Dev = {} NC = 3
INVARIANT IsolationOK
CHECK_DEADLOCK FALSE

SPECIFICATION Spec
CONSTANTS Deep = TRUE Dev = {"dep_row0"}
INVARIANT AbsOK
INVARIANT LenOK
CHECK_DEADLOCK FALSE

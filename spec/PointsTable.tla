---------------------------- MODULE PointsTable ----------------------------
(* Points and Space (problem/spaces/points.py, space.py) as a TABLE WITH NAMED COLUMN GROUPS: property C12.
   A space is a sequence of <<name, dim>> (order matters).  A table is
        [sp |-> space, sh |-> batch shape (1 or 2 axes), c |-> nested sequences of rows, a row = Seq(cell)]
   Cells are integers; drivers use distinct ids so every result reveals where each cell came from.
   Everything here is the Abs semantics ("what a table with named column groups does"); it shares no code
   with torchphysics.  Indices are Python-style (0-based, negative = from the end).                    *)
EXTENDS Integers, Sequences, FiniteSets
None == -99
Range(s) == {s[i] : i \in DOMAIN s}
RECURSIVE Flatten(_)
Flatten(ss) == IF ss = <<>> THEN <<>> ELSE Head(ss) \o Flatten(Tail(ss))
RECURSIVE SumSeq(_)
SumSeq(s) == IF s = <<>> THEN 0 ELSE Head(s) + SumSeq(Tail(s))

(* ------------------------------ spaces ------------------------------ *)
SNames(sp) == [i \in DOMAIN sp |-> sp[i][1]]
SDim(sp) == SumSeq([i \in DOMAIN sp |-> sp[i][2]])
SHas(sp, n) == \E i \in DOMAIN sp : sp[i][1] = n
SIdx(sp, n) == CHOOSE i \in DOMAIN sp : sp[i][1] = n
SDimOf(sp, n) == sp[SIdx(sp, n)][2]
\* product: equal names are merged by ADDING dimensions, first-occurrence order is kept
RECURSIVE SProd(_, _)
SProd(a, b) == IF b = <<>> THEN a
               ELSE LET h == Head(b) IN
                    IF SHas(a, h[1])
                    THEN SProd([i \in DOMAIN a |-> IF a[i][1] = h[1] THEN <<h[1], a[i][2] + h[2]>> ELSE a[i]], Tail(b))
                    ELSE SProd(Append(a, h), Tail(b))
\* sub-space test: every variable of a occurs in b with at least its dimension
SContains(b, a) == \A i \in DOMAIN a : SHas(b, a[i][1]) /\ SDimOf(b, a[i][1]) >= a[i][2]
\* selection of variables by a list of names (requested order)
SSelect(sp, names) == [i \in DOMAIN names |-> <<names[i], SDimOf(sp, names[i])>>]
\* python slice(lo, hi, s) over n items, lo / hi a 0-based position or None (open end), s any non-zero step: the 0-based positions
PyIdx(lo, hi, s, n) ==
    IF s > 0 THEN LET a == IF lo = None THEN 0 ELSE lo   b == IF hi = None THEN n ELSE hi
                      cnt == IF b <= a THEN 0 ELSE (b - a + s - 1) \div s
                  IN [r \in 1..cnt |-> a + (r - 1) * s]
    ELSE LET a == IF lo = None THEN n - 1 ELSE lo   b == IF hi = None THEN -1 ELSE hi   st == -s
             cnt == IF a <= b THEN 0 ELSE (a - b + st - 1) \div st
         IN [r \in 1..cnt |-> a - (r - 1) * st]
\* name slice  sp[a:b:s]  ("" = open end; the step may be negative: variables in reverse order)
SSlice(sp, a, b, s) == LET ix == PyIdx(IF a = "" THEN None ELSE SIdx(sp, a) - 1, IF b = "" THEN None ELSE SIdx(sp, b) - 1, s, Len(sp))
                       IN [r \in DOMAIN ix |-> sp[ix[r] + 1]]
\* column indices (1-based) of a variable group
SOffset(sp, n) == SumSeq([i \in 1..(SIdx(sp, n) - 1) |-> sp[i][2]])
SCols(sp, n) == [j \in 1..SDimOf(sp, n) |-> SOffset(sp, n) + j]
SColsOf(sp, sub) == Flatten([i \in DOMAIN sub |-> SCols(sp, sub[i][1])])

(* ------------------------------ row selection ------------------------------ *)
NormI(i, n) == IF i < 0 THEN i + n ELSE i            \* python index -> 0-based
\* python slice(a, b, s) with a, b >= 0 or None, s >= 1, on length n: sequence of 0-based indices
SliceIdx(a, b, s, n) == LET lo == IF a = None THEN 0 ELSE (IF a > n THEN n ELSE a)
                            hi == IF b = None THEN n ELSE (IF b > n THEN n ELSE b)
                            cnt == IF hi <= lo THEN 0 ELSE (hi - lo + s - 1) \div s
                        IN [r \in 1..cnt |-> lo + (r - 1) * s]
RECURSIVE MaskIdx(_, _)
MaskIdx(m, k) == IF k > Len(m) THEN <<>> ELSE (IF m[k] THEN <<k - 1>> ELSE <<>>) \o MaskIdx(m, k + 1)
\* 0-based row indices chosen by one selector on an axis of length n  (not for "int"/"ell")
RowIdx(s, n) == CASE s.k = "slice" -> SliceIdx(s.a, s.b, s.s, n)
                  [] s.k = "mask"  -> MaskIdx(s.m, 1)
                  [] s.k = "idx"   -> [r \in DOMAIN s.ix |-> NormI(s.ix[r], n)]
                  [] s.k = "all"   -> [r \in 1..n |-> r - 1]
SelValid(s, n) == CASE s.k = "int" -> NormI(s.i, n) >= 0 /\ NormI(s.i, n) < n
                    [] s.k = "mask" -> Len(s.m) = n
                    [] s.k = "idx" -> \A r \in DOMAIN s.ix : NormI(s.ix[r], n) >= 0 /\ NormI(s.ix[r], n) < n
                    [] OTHER -> TRUE
\* apply row selectors axis by axis to nested cells c with `depth` batch axes; ints drop their axis
RECURSIVE Sel(_, _, _)
Sel(c, sels, depth) ==
    IF sels = <<>> \/ depth = 0 THEN c
    ELSE LET s == Head(sels) IN
         IF s.k = "ell" THEN c
         ELSE IF s.k = "int" THEN Sel(c[NormI(s.i, Len(c)) + 1], Tail(sels), depth - 1)
         ELSE LET ix == RowIdx(s, Len(c)) IN [r \in DOMAIN ix |-> Sel(c[ix[r] + 1], Tail(sels), depth - 1)]
RECURSIVE SelShape(_, _)
SelShape(sh, sels) ==
    IF sels = <<>> \/ sh = <<>> THEN sh
    ELSE LET s == Head(sels) IN
         IF s.k = "ell" THEN sh
         ELSE IF s.k = "int" THEN SelShape(Tail(sh), Tail(sels))
         ELSE <<Len(RowIdx(s, Head(sh)))>> \o SelShape(Tail(sh), Tail(sels))
RECURSIVE SelsValid(_, _)
SelsValid(sh, sels) == IF sels = <<>> THEN TRUE
                       ELSE IF Head(sels).k = "ell" THEN Tail(sels) = <<>>
                       ELSE sh # <<>> /\ SelValid(Head(sels), Head(sh)) /\ SelsValid(Tail(sh), Tail(sels))

(* ------------------------------ column selection ------------------------------ *)
\* sub-space chosen by a column selector
ColSpace(sp, cs) == CASE cs.k = "none" -> sp
                      [] cs.k = "name" -> <<<<cs.n, SDimOf(sp, cs.n)>>>>
                      [] cs.k = "list" -> SSelect(sp, cs.ns)
                      [] cs.k = "nslice" -> SSlice(sp, cs.a, cs.b, IF "s" \in DOMAIN cs THEN cs.s ELSE 1)
ColValid(sp, cs) == CASE cs.k = "name" -> SHas(sp, cs.n)
                      [] cs.k = "list" -> (\A i \in DOMAIN cs.ns : SHas(sp, cs.ns[i])) /\ (\A i, j \in DOMAIN cs.ns : i # j => cs.ns[i] # cs.ns[j])
                      [] cs.k = "nslice" -> (cs.a = "" \/ SHas(sp, cs.a)) /\ (cs.b = "" \/ SHas(sp, cs.b))
                      [] OTHER -> TRUE
RECURSIVE MapRows(_, _, _)
MapRows(c, depth, cols) == IF depth = 0 THEN [j \in DOMAIN cols |-> c[cols[j]]]
                           ELSE [r \in DOMAIN c |-> MapRows(c[r], depth - 1, cols)]

(* ------------------------------ table operations ------------------------------ *)
\* t[rows..., cols]: exactly those rows, exactly those column groups in the requested order, matching space;
\* a single row still has one batch axis
Get(t, sels, cs) ==
    LET sub == ColSpace(t.sp, cs)
        rows == Sel(t.c, sels, Len(t.sh))
        sh == SelShape(t.sh, sels)
        cells == MapRows(rows, Len(sh), SColsOf(t.sp, sub))
    IN IF sh = <<>> THEN [sp |-> sub, sh |-> <<1>>, c |-> <<cells>>]
       ELSE [sp |-> sub, sh |-> sh, c |-> cells]
GetValid(t, sels, cs) == SelsValid(t.sh, sels) /\ ColValid(t.sp, cs) /\ Len(sels) <= Len(t.sh)
                         /\ Cardinality({i \in DOMAIN sels : sels[i].k \in {"mask", "idx"}}) <= 1

\* assignment on one batch axis: t[rowsel, cols] = v
SetRows(t, s) == IF s.k = "int" THEN <<NormI(s.i, Len(t.c))>> ELSE RowIdx(s, Len(t.c))
Set1(t, s, cs, v) ==
    LET ri == SetRows(t, s)
        cols == SColsOf(t.sp, ColSpace(t.sp, cs))
        \* last assignment wins when an index list repeats a row
        NewCell(r, col) == LET js == {j \in DOMAIN ri : ri[j] = r - 1}
                               ms == {m \in DOMAIN cols : cols[m] = col}
                           IN IF js = {} \/ ms = {} THEN t.c[r][col]
                              ELSE v.c[CHOOSE j \in js : \A j2 \in js : j2 <= j][CHOOSE m \in ms : TRUE]
    IN [t EXCEPT !.c = [r \in DOMAIN t.c |-> [col \in DOMAIN t.c[r] |-> NewCell(r, col)]]]
Join(a, b) == [sp |-> a.sp \o b.sp, sh |-> a.sh,
               c |-> [r \in DOMAIN a.c |-> a.c[r] \o b.c[r]]]                       \* one batch axis
JoinValid(a, b) == a.sh = b.sh /\ Len(a.sh) = 1 /\ Range(SNames(a.sp)) \cap Range(SNames(b.sp)) = {}
Cat(a, b) == [sp |-> a.sp, sh |-> <<a.sh[1] + b.sh[1]>> \o Tail(a.sh), c |-> a.c \o b.c]
CatValid(a, b) == a.sp = b.sp /\ Tail(a.sh) = Tail(b.sh)
Repeat(t, n) == [sp |-> t.sp, sh |-> <<n * t.sh[1]>> \o Tail(t.sh),
                 c |-> [r \in 1..(n * Len(t.c)) |-> t.c[((r - 1) % Len(t.c)) + 1]]]
\* repeat with one count per batch axis on a two-axis table: torch tiling, axis by axis
Repeat2(t, n1, n2) == [sp |-> t.sp, sh |-> <<n1 * t.sh[1], n2 * t.sh[2]>>,
                       c |-> [a \in 1..(n1 * t.sh[1]) |-> [b \in 1..(n2 * t.sh[2]) |-> t.c[((a - 1) % t.sh[1]) + 1][((b - 1) % t.sh[2]) + 1]]]]
Unsq(t, d) == IF d = 0 THEN [sp |-> t.sp, sh |-> <<1>> \o t.sh, c |-> <<t.c>>]        \* one batch axis in, two out
              ELSE [sp |-> t.sp, sh |-> t.sh \o <<1>>, c |-> [r \in DOMAIN t.c |-> <<t.c[r]>>]]
Arith(a, b, op) == [sp |-> a.sp, sh |-> a.sh,
                    c |-> [r \in DOMAIN a.c |-> [j \in DOMAIN a.c[r] |->
                             CASE op = "add" -> a.c[r][j] + b.c[r][j]
                               [] op = "sub" -> a.c[r][j] - b.c[r][j]
                               [] op = "mul" -> a.c[r][j] * b.c[r][j]
                               [] op = "div" -> a.c[r][j] \div b.c[r][j]                 \* (emitted only where every cell divides)
                               [] op = "pow" -> IF b.c[r][j] = 0 THEN 1 ELSE IF b.c[r][j] = 1 THEN a.c[r][j] ELSE a.c[r][j] * a.c[r][j]]]]   \* exponents 0, 1, 2
ArithValid(a, b) == a.sp = b.sp /\ a.sh = b.sh /\ Len(a.sh) = 1
TEq(a, b) == a.sp = b.sp /\ a.sh = b.sh /\ a.c = b.c                       \* sensitive to variable order
\* building from coordinates given in order `names`, and reading coordinates back
FromCoords(t, names) == Get(t, <<>>, [k |-> "list", ns |-> names])
=============================================================================

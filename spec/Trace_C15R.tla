---------------------------- MODULE Trace_C15R ----------------------------
(* C15, random variant: "keep ... with the stated probability".  Row i survives with probability
   (loss[i] - min) / (max - min) (1 when all losses are equal).  The driver reports, for R independent
   two-call runs, how often each row survived; TLC evaluates the binomial acceptance region (z = 6). *)
EXTENDS Adaptive, TLC, TLCExt, Json, IOUtils
Traces == JsonDeserialize(IOEnv.TRACE_FILE)
VARIABLES tid, verdict
Z == 6
RowOK(t, i) == LET loss == t.scenario.loss  mx == SMax(loss)  mn == SMin(loss)
               IN IF mx = mn THEN t.kept[i] = t.scenario.reps
                  ELSE BinomOK(t.kept[i], t.scenario.reps, loss[i] - mn, mx - mn, Z)
Check(t) == IF "driver_error" \in DOMAIN t THEN "driver-error"
            ELSE IF ~t.count_ok THEN "count"
            ELSE IF t.xmin < t.scenario.lo * 256 \/ t.xmax > t.scenario.hi * 256 THEN "point-outside-domain"
            ELSE IF \E i \in DOMAIN t.kept : ~RowOK(t, i) THEN "keep-frequency"
            ELSE "ok"
Init == tid \in 1..Len(Traces) /\ verdict = Check(Traces[tid])
Next == UNCHANGED <<tid, verdict>>
Report == /\ TLCSet(1, TLCGet(1) \cup {tid})
          /\ (verdict = "ok" \/ PrintT(<<"REJ", Traces[tid].tid, verdict, "">>))
Post == PrintT(<<"VALIDATED", Cardinality(TLCGet(1))>>)
ASSUME TLCSet(1, {})
==========================================================================

--------------------------- MODULE DataLoaders ---------------------------
(* Data loaders of torchphysics (utils/data/dataloader.py, deeponet_dataloader.py) and the
   full-data-set aggregation of DataCondition (conditions/condition.py).

   Two layers:
     Impl  - the index arithmetic exactly as the code performs it (one operator per
             __len__ / __getitem__), with NAMED DEVIATIONS from the property
             (constant Dev) for the defects that are acknowledged in known_findings.json.
     Abs   - the property C16 itself, stated on what a loader PRESENTS (batches of ids).

   Data are ids.  PointsDataset: input row i and target row i carry id i (0-based).
   DeepONet data: branch function i, trunk location j, output cell (i,j).              *)
EXTENDS Integers, Sequences, FiniteSets, TLC

RECURSIVE GCD(_, _)
GCD(a, b) == IF b = 0 THEN a ELSE GCD(b, a % b)
LCM(a, b) == (a * b) \div GCD(a, b)
CeilDiv(a, b) == (a + b - 1) \div b
MinI(a, b) == IF a < b THEN a ELSE b
Range(s) == {s[i] : i \in DOMAIN s}
Iota(a, b) == [i \in 1..(b - a) |-> a + i - 1]           \* the python range(a, b) as a sequence
RECURSIVE SeqSum(_)
SeqSum(s) == IF s = <<>> THEN 0 ELSE Head(s) + SeqSum(Tail(s))
RECURSIVE SeqLCM(_)
SeqLCM(s) == IF s = <<>> THEN 1 ELSE LCM(Head(s), SeqLCM(Tail(s)))
RECURSIVE SeqMax(_)
SeqMax(s) == IF s = <<>> THEN 0 ELSE LET m == SeqMax(Tail(s)) IN IF Head(s) > m THEN Head(s) ELSE m

(* ------------------------------ Impl ---------------------------------- *)
\* PointsDataset.__len__ / __getitem__
PD_Len(L, bs, drop) == IF drop THEN L \div bs ELSE CeilDiv(L, bs)
PD_Item(L, bs, idx) == Iota(idx * bs, MinI((idx + 1) * bs, L))

\* the wrap-around slice used by both DeepONet data sets
WSlice(N, bs, idx) ==
    LET a == (idx * bs) % N
        b == ((idx + 1) * bs) % N
    IN IF a < b THEN Iota(a, b) ELSE Iota(a, N) \o Iota(0, b)
EffBS(N, bs) == IF bs < 0 THEN N ELSE bs               \* "-1 = all" convention

\* DeepONetDataset (shared trunk): ONE joint index drives both slices
Shared_Len(Nb, Nt, bb, tb) == LCM(LCM(Nb, bb) \div bb, LCM(Nt, tb) \div tb)
Shared_Item(Nb, Nt, bb, tb, idx) == [br |-> WSlice(Nb, bb, idx), tr |-> WSlice(Nt, tb, idx)]

\* DeepONetDataset_Unique (per-function trunk): idx -> (branch batch, trunk batch)
\* deviation "dl_unique_divisor": the code divided by the number of BRANCH batches
Unique_Len(Nb, Nt, bb, tb) == CeilDiv(Nb, bb) * CeilDiv(Nt, tb)
\* deviation "dl_unique_oversize": a batch size larger than the data was not clamped, so the single
\* wrapped slice (idx*bs mod N .. (idx+1)*bs mod N) presented only part of the data
EffBSU(N, bs, dev) == IF bs < 0 THEN N ELSE IF "dl_unique_oversize" \in dev THEN bs ELSE MinI(bs, N)
Unique_Item(Nb, Nt, bb, tb, idx, dev) ==
    LET BL == CeilDiv(Nb, bb)
        TL == CeilDiv(Nt, tb)
        bi == IF "dl_unique_divisor" \in dev THEN idx \div BL ELSE idx \div TL
    IN [br |-> WSlice(Nb, bb, bi), tr |-> WSlice(Nt, tb, idx % TL)]

ImplEpoch(kind, Nb, Nt, bb0, tb0, dev) ==
    IF kind = "shared"
    THEN LET bb == EffBS(Nb, bb0)
             tb == EffBS(Nt, tb0)
         IN [i \in 1..Shared_Len(Nb, Nt, bb, tb) |-> Shared_Item(Nb, Nt, bb, tb, i - 1)]
    ELSE LET bb == EffBSU(Nb, bb0, dev)
             tb == EffBSU(Nt, tb0, dev)
         IN [i \in 1..Unique_Len(Nb, Nt, bb, tb) |-> Unique_Item(Nb, Nt, bb, tb, i - 1, dev)]

(* ------------------------------- Abs ---------------------------------- *)
\* an epoch is a sequence of batches [br |-> Seq(id), tr |-> Seq(id)]
DO_SizeOK(ep, Nb, Nt, bb0, tb0) ==
    \A i \in DOMAIN ep : Len(ep[i].br) <= EffBS(Nb, bb0) /\ Len(ep[i].tr) <= EffBS(Nt, tb0)
                         /\ Len(ep[i].br) >= 1 /\ Len(ep[i].tr) >= 1
DO_Presented(ep) == UNION {Range(ep[i].br) \X Range(ep[i].tr) : i \in DOMAIN ep}
DO_CoverOK(ep, Nb, Nt) == DO_Presented(ep) = (0..(Nb - 1)) \X (0..(Nt - 1))

\* points data set: an epoch is a sequence of batches (sequences of ids), in presented order
PD_SizeOK(ep, bs) == \A i \in DOMAIN ep : Len(ep[i]) <= bs /\ Len(ep[i]) >= 1
PD_Presented(ep) == UNION {Range(ep[i]) : i \in DOMAIN ep}
PD_CoverOK(ep, L, bs, drop) ==
    LET missing == (0..(L - 1)) \ PD_Presented(ep)
    IN /\ PD_Presented(ep) \subseteq 0..(L - 1)
       /\ IF drop THEN Cardinality(missing) <= L % bs ELSE missing = {}
\* drop_last may drop only an incomplete tail: every batch it presents is full
PD_DropOK(ep, bs, drop) == drop => \A i \in DOMAIN ep : Len(ep[i]) = bs
PD_ImplEpoch(L, bs, drop) == [i \in 1..PD_Len(L, bs, drop) |-> PD_Item(L, bs, i - 1)]

\* aggregation over the full data set.  vals[k] = sequence of non-negative integer errors |m - y| of
\* batch k.  Result as a rational <<num, den>>.
PowI(a, p) == IF p = 1 THEN a ELSE IF p = 2 THEN a * a ELSE a * a * a
AggInf(vals) == <<SeqMax([k \in DOMAIN vals |-> SeqMax(vals[k])]), 1>>
AggMean(vals, p) ==            \* mean over batches of the per-batch means of a^p
    LET nb == Len(vals)
        Lc == SeqLCM([k \in DOMAIN vals |-> Len(vals[k])])
        num == SeqSum([k \in DOMAIN vals |-> SeqSum([j \in DOMAIN vals[k] |-> PowI(vals[k][j], p)]) * (Lc \div Len(vals[k]))])
    IN <<num, nb * Lc>>
RatEq(a, b) == a[1] * b[2] = b[1] * a[2]
==========================================================================

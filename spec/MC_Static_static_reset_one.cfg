SPECIFICATION Spec
CONSTANTS Inf = 1000 Dev = {"static_reset_one"} MaxIv = 5 MaxLen = 8
PROPERTY Refines
INVARIANT RunInv
CHECK_DEADLOCK FALSE

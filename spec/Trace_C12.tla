---------------------------- MODULE Trace_C12 ----------------------------
(* Trace validation for C12: every recorded step (operands before/after, result) of a history on real Points
   objects is compared with the table semantics of PointsTable.tla. *)
EXTENDS PointsTable, TLC, TLCExt, Json, IOUtils
Traces == JsonDeserialize(IOEnv.TRACE_FILE)
VARIABLES tid, verdict, dev
Tab(j) == [sp |-> j.sp, sh |-> j.sh, c |-> j.c]
Has(r, f) == f \in DOMAIN r
\* shape first: cells of different nesting depth must not be compared
TabEq(a, b) == a.sp = b.sp /\ a.sh = b.sh /\ a.c = b.c
Failed(e) == e.exc # ""
\* zipped advanced indexing (acknowledged deviation "pt_zipped_index"): rows and columns paired element-wise
Zipped(t, rs, cs) == LET ri == RowIdx(rs, t.sh[1])  cols == SColsOf(t.sp, ColSpace(t.sp, cs)) IN
                     IF Len(ri) = Len(cols) THEN <<[m \in DOMAIN cols |-> t.c[ri[m] + 1][cols[m]]]>> ELSE <<>>
\* the clause an event violates ("ok" if none)
ArithExact(a, b, op) == CASE op = "div" -> \A r \in DOMAIN a.c : \A j \in DOMAIN a.c[r] : b.c[r][j] > 0 /\ a.c[r][j] >= 0 /\ a.c[r][j] % b.c[r][j] = 0
                          [] op = "pow" -> \A r \in DOMAIN a.c : \A j \in DOMAIN a.c[r] : b.c[r][j] \in 0..2 /\ a.c[r][j] < 30000 /\ a.c[r][j] > -30000
                          [] OTHER -> TRUE
\* cells of magnitude 2^24 and more are not exact once a history has converted a table to single precision: such events are not judged
Big1(rows) == \E r \in DOMAIN rows : \E j \in DOMAIN rows[r] : rows[r][j] >= 16777216 \/ rows[r][j] <= -16777216
\* (tables without rows or without columns have nothing to judge: their cell part may arrive as an empty string)
BigTab(x) == IF x.sp = <<>> \/ Len(x.sh) > 2 \/ \E i \in DOMAIN x.sh : x.sh[i] = 0 THEN FALSE
             ELSE IF Len(x.sh) = 1 THEN Big1(x.c) ELSE \E a \in DOMAIN x.c : Big1(x.c[a])
Clause(e) ==
  LET t == Tab(e.ins[1]) IN
  IF \E i \in DOMAIN e.ins : BigTab(e.ins[i]) THEN "ok"
  ELSE IF e.a # "set" /\ e.ins_after # e.ins THEN "operand-changed"
  \* frame: no other table of the heap changes (results never alias other objects), and the two views of an object agree
  ELSE IF Has(e, "others") /\ e.others_after # e.others THEN "unrelated-table-changed"
  ELSE IF Has(e, "ins_after_co") /\ e.ins_after_co # e.ins_after THEN "coordinates-view-differs-from-tensor"
  ELSE CASE e.a = "roundtrip" ->
         IF Failed(e) THEN "roundtrip-failed"
         ELSE IF ~TabEq(Tab(e.out), FromCoords(t, e.names)) THEN "from-coordinates"
         ELSE IF \E i \in DOMAIN e.names : e.back[e.names[i]] # Get(t, <<>>, [k |-> "name", n |-> e.names[i]]).c THEN "coordinates-read-back"
         \* coordinates of different dtypes (integer or float32 first, then float64 with a fractional part): no cell loses its value
         ELSE IF Has(e, "mixed") /\ e.mixed.exc # "" THEN "from-coordinates-failed(mixed dtypes)"
         ELSE IF Has(e, "mixed") /\ LET x == FromCoords(t, e.names)  d1 == x.sp[1][2] IN
                     \/ e.mixed.c # x.c
                     \/ \E r \in DOMAIN e.mixed.frac : \E j \in DOMAIN e.mixed.frac[r] : e.mixed.frac[r][j] # (IF j <= d1 THEN 0 ELSE 1)
              THEN "from-coordinates-loses-cell-values(mixed dtypes)"
         ELSE "ok"
    [] e.a = "get" ->
         IF ~GetValid(t, e.op.sels, e.op.cs) THEN "ok"          \* outside the index universe: unconstrained
         ELSE IF Failed(e) THEN "index-rejected"                 \* raised: not accepted by the API (see Accepts)
         ELSE IF ~TabEq(Tab(e.out), Get(t, e.op.sels, e.op.cs)) THEN "get"
         ELSE "ok"
    [] e.a = "set" ->
         IF ~(Len(t.sh) = 1 /\ GetValid(t, e.op.sels, e.op.cs) /\ Tab(e.v).sp = ColSpace(t.sp, e.op.cs)
              /\ e.v.sh = <<Len(SetRows(t, e.op.sels[1]))>>) THEN "ok"      \* operands do not fit (downstream of a deviation)
         ELSE IF Failed(e) THEN "index-rejected"
         ELSE IF ~TabEq(Tab(e.ins_after[1]), Set1(t, e.op.sels[1], e.op.cs, Tab(e.v))) THEN "set" ELSE "ok"
    [] e.a = "join" -> IF ~JoinValid(t, Tab(e.ins[2])) THEN "ok" ELSE IF Failed(e) THEN "join-failed" ELSE IF ~TabEq(Tab(e.out), Join(t, Tab(e.ins[2]))) THEN "join" ELSE "ok"
    [] e.a = "badcat" ->        \* rows of different spaces must not be concatenated (one-axis tables, both with a real space)
         LET u == Tab(e.ins[2]) IN
         IF CatValid(t, u) \/ t.sp = <<>> \/ u.sp = <<>> \/ Failed(e) THEN "ok" ELSE "cat-accepted-different-spaces"
    [] e.a = "cat" -> IF ~CatValid(t, Tab(e.ins[2])) THEN "ok" ELSE IF Failed(e) THEN "cat-failed" ELSE IF ~TabEq(Tab(e.out), Cat(t, Tab(e.ins[2]))) THEN "cat" ELSE "ok"
    [] e.a = "repeat" -> IF Len(t.sh) # 1 THEN "ok" ELSE IF Failed(e) THEN "repeat-failed" ELSE IF ~TabEq(Tab(e.out), Repeat(t, e.n)) THEN "repeat" ELSE "ok"
    [] e.a = "repeat2" -> IF Len(t.sh) # 2 THEN "ok" ELSE IF Failed(e) THEN "repeat-failed" ELSE IF ~TabEq(Tab(e.out), Repeat2(t, e.n \div 10, e.n % 10)) THEN "repeat(two batch axes)" ELSE "ok"
    [] e.a = "unsq" -> IF Len(t.sh) # 1 THEN "ok" ELSE IF Failed(e) THEN "unsqueeze-failed" ELSE IF ~TabEq(Tab(e.out), Unsq(t, IF e.n = 0 THEN 0 ELSE 1)) THEN "unsqueeze" ELSE "ok"
    \* (quotients are judged where every observed cell divides, powers for exponent cells 0..2 and small bases: exact in float64)
    [] e.a = "arith" -> IF ~ArithValid(t, Tab(e.ins[2])) \/ ~ArithExact(t, Tab(e.ins[2]), e.opname) THEN "ok" ELSE IF Failed(e) THEN "arith-failed" ELSE IF ~TabEq(Tab(e.out), Arith(t, Tab(e.ins[2]), e.opname)) THEN "arith" ELSE "ok"
    [] e.a = "to" -> IF Failed(e) THEN "to-failed"
                     ELSE IF \E i \in DOMAIN e.dt : e.dt[i] # (IF e.n = 32 THEN "torch.float32" ELSE "torch.float64") THEN "dtype-after-to" ELSE "ok"
    \* list(points) iterates through the first batch axis: one table per row, row r = t[r]
    [] e.a = "iter" -> IF Len(t.sh) # 1 THEN "ok" ELSE IF Failed(e) THEN "iteration-failed"
                       ELSE IF Len(e.rows_out) # t.sh[1] \/ \E r \in DOMAIN e.rows_out :
                                 ~TabEq(Tab(e.rows_out[r]), Get(t, <<[k |-> "int", i |-> r - 1, ix |-> <<>>, a |-> 0, b |-> 0, s |-> 1, m |-> <<>>]>>, [k |-> "none"])) THEN "iteration" ELSE "ok"
    [] e.a = "eq" -> IF Failed(e) THEN "eq-failed" ELSE IF e.eq # TEq(t, Tab(e.ins[2])) THEN "equality" ELSE "ok"
    [] e.a = "space" ->
         LET u == Tab(e.ins[2]) IN
         IF Failed(e) THEN "space-failed"
         ELSE IF e.prod # SProd(t.sp, u.sp) THEN "space-product"
         ELSE IF e.dim # SDim(SProd(t.sp, u.sp)) THEN "space-dim"
         ELSE IF e.contains # SContains(t.sp, u.sp) THEN "sub-space-test"
         ELSE IF e.eqsp # (t.sp = u.sp) THEN "space-equality" ELSE "ok"
    [] OTHER -> "unknown-event"
\* index expressions the row-part/column-part universe REQUIRES the API to accept: no advanced row index
\* combined with a column selection (those may be rejected; if accepted they must be right)
\* and, with several batch axes, a column part only together with a complete row part or an Ellipsis
MustAccept(e) == /\ e.a \in {"get", "set"}
                 /\ \A i \in DOMAIN e.op.sels : e.op.sels[i].k \notin {"mask", "idx"} \/ e.op.cs.k = "none"
                 /\ (e.op.cs.k = "none" \/ Len(e.op.sels) = Len(e.ins[1].sh) \/ e.op.sels = <<>>
                     \/ \E i \in DOMAIN e.op.sels : e.op.sels[i].k = "ell")
EvVerdict(e) == LET c == Clause(e) IN IF c = "index-rejected" /\ ~MustAccept(e) THEN "ok" ELSE c
DevOfEv(e) == IF e.a = "get" /\ EvVerdict(e) = "get" /\ Len(e.op.sels) = 1 /\ e.op.sels[1].k \in {"mask", "idx"} /\ e.op.cs.k # "none"
                 /\ Len(e.ins[1].sh) = 1 /\ e.out.sh = <<1>> /\ e.out.c = Zipped(Tab(e.ins[1]), e.op.sels[1], e.op.cs)
              THEN "pt_zipped_index" ELSE ""
RECURSIVE FirstBad(_, _)
FirstBad(ev, k) == IF k > Len(ev) THEN 0 ELSE IF EvVerdict(ev[k]) # "ok" THEN k ELSE FirstBad(ev, k + 1)
\* a trace whose only failures are explained by ONE acknowledged deviation is tagged with it
AllBad(ev) == {k \in DOMAIN ev : EvVerdict(ev[k]) # "ok"}
Check(t) == IF Has(t, "driver_error") THEN <<"driver-error", "">>
            ELSE LET bad == AllBad(t.events) IN
                 IF bad = {} THEN <<"ok", "">>
                 \* events after an acknowledged-deviation event operate on its (wrong) result and are not judged
                 ELSE LET un == {k \in bad : DevOfEv(t.events[k]) = "" /\ ~\E k0 \in bad : k0 < k /\ DevOfEv(t.events[k0]) # ""} IN
                      IF un = {} THEN <<"get", "pt_zipped_index">>
                      ELSE LET k == CHOOSE k \in un : \A k2 \in un : k <= k2 IN <<EvVerdict(t.events[k]) \o "@" \o ToString(k), "">>
Init == tid \in 1..Len(Traces) /\ LET r == Check(Traces[tid]) IN verdict = r[1] /\ dev = r[2]
Next == UNCHANGED <<tid, verdict, dev>>
Report == /\ TLCSet(1, TLCGet(1) \cup {tid})
          /\ (verdict = "ok" \/ PrintT(<<"REJ", Traces[tid].tid, verdict, dev>>))
Post == PrintT(<<"VALIDATED", Cardinality(TLCGet(1))>>)
ASSUME TLCSet(1, {})
==========================================================================

SPECIFICATION Spec
CONSTANTS Inf = 1000 Depth = 24 Ivs = {1,2,3,4,5,7,1000} AdaptiveN = 6 MaxLoss = 4 Rand = TRUE Kinds = {"adaptive"}
CONSTRAINT Emit
POSTCONDITION Post
CHECK_DEADLOCK FALSE

---------------------------- MODULE Trace_C03 ----------------------------
(* Trace validation for C03: the recorded results of the real operators on polynomial programs against the term
   rewriting calculus of Poly.tla, per row; the batch result must equal the single-row results (row independence);
   a program that is constant or linear in a listed variable yields zeros, not an error. *)
EXTENDS Poly, TLC, TLCExt, Json, IOUtils, FiniteSets
Traces == JsonDeserialize(IOEnv.TRACE_FILE)
VARIABLES tid, verdict, dev
Sc(t) == t.scenario
Exp(t, r) == Expected(Sc(t).op, Sc(t).F, Sc(t).gs, Sc(t).aux, Sc(t).rows[r])
\* acknowledged deviation: rot() applies .shape to the tuple of derivative variables
DevOf(t, c) == IF Sc(t).op = "rot" /\ c = "operator-failed:AttributeError" THEN "rot_tuple_shape" ELSE ""
Check(t) ==
    IF "driver_error" \in DOMAIN t THEN "driver-error"
    ELSE IF t.exc # "" THEN "operator-failed:" \o t.exc
    ELSE IF Len(t.batch) # Len(Sc(t).rows) THEN "one-result-per-row"
    ELSE IF \E r \in DOMAIN t.batch : t.batch[r] # Exp(t, r) THEN "value"
    \* the first result was read after a second call (rows reversed) of the same operator: results are independent objects,
    \* and the order of the rows in the batch does not matter
    ELSE IF t.batch2 # t.batch THEN "result-depends-on-later-call-or-row-order"
    ELSE IF \E r \in DOMAIN t.single : t.single[r] # t.batch[r] THEN "row-depends-on-batch"
    \* two leading batch axes (2, n, d), second slice = the rows reversed: 2 n result rows, each the value at its own point
    ELSE IF "exc3" \in DOMAIN t /\ t.exc3 # "" THEN "operator-failed(two batch axes):" \o t.exc3
    ELSE IF "batch3" \in DOMAIN t /\ t.batch3 # <<>> /\ (Len(t.batch3) # 2 * Len(t.batch)
              \/ \E r \in DOMAIN t.batch : t.batch3[r] # t.batch[r] \/ t.batch3[2 * Len(t.batch) + 1 - r] # t.batch[r]) THEN "value(two batch axes)"
    ELSE "ok"
Init == tid \in 1..Len(Traces) /\ verdict = Check(Traces[tid]) /\ dev = DevOf(Traces[tid], verdict)
Next == FALSE /\ UNCHANGED <<tid, verdict, dev>>
Report == /\ TLCSet(1, TLCGet(1) \cup {tid})
          /\ (verdict = "ok" \/ PrintT(<<"REJ", Traces[tid].tid, verdict, dev>>))
Post == PrintT(<<"VALIDATED", Cardinality(TLCGet(1))>>)
ASSUME TLCSet(1, {})
==========================================================================

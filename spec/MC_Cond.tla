------------------------------ MODULE MC_Cond ------------------------------
(* Design level for C04 / C14: conditions that share a user dictionary.
   Impl: a dictionary is a heap object  name -> content, content in {"orig", <<"pre", c>>} (pre-evaluated on the points of
   condition c).  Construct(c, d, static) either works on a COPY (the code after the fix) or IN PLACE (deviation
   "cond_inplace_dict"): wraps, and for a static sampler replaces every entry by its values on c's own points.
   Evaluate(c) reads its stored dictionary: entry "orig" is evaluated on c's points, <<"pre", c2>> yields c2's points.
   Abs (IsolationOK): whatever the order of constructing and evaluating, c always sees the data on ITS OWN points and the
   user's dictionary still holds the original functions. *)
EXTENDS Integers, Sequences, FiniteSets, TLC
CONSTANTS Dev, NC
VARIABLES udict,     \* the user's dictionary: content of entry "f"
          stored,    \* per condition: "none" | content it will read at evaluation
          static, seen, len
vars == <<udict, stored, static, seen, len>>
Conds == 1..NC
Orig == <<"orig", 0>>
None == <<"none", 0>>
Init == udict = Orig /\ stored = [c \in Conds |-> None] /\ static \in [Conds -> BOOLEAN] /\ seen = [c \in Conds |-> 0] /\ len = 0
Construct(c) == /\ stored[c] = None
                /\ LET incoming == udict
                       mine == IF static[c] THEN <<"pre", IF incoming = Orig THEN c ELSE incoming[2]>> ELSE incoming
                   IN /\ stored' = [stored EXCEPT ![c] = mine]
                      /\ udict' = IF "cond_inplace_dict" \in Dev THEN mine ELSE udict
                /\ UNCHANGED <<static, seen>>
Evaluate(c) == /\ stored[c] # None
               /\ seen' = [seen EXCEPT ![c] = IF stored[c] = Orig THEN c ELSE stored[c][2]]     \* whose points the data came from
               /\ UNCHANGED <<udict, stored, static>>
Next == len < 2 * NC /\ len' = len + 1 /\ \E c \in Conds : Construct(c) \/ Evaluate(c)
Spec == Init /\ [][Next]_vars
IsolationOK == /\ \A c \in Conds : seen[c] \in {0, c}
               /\ udict = Orig
=============================================================================

----------------------------- MODULE Gen_C12 -----------------------------
(* Scenario generation for C12.
   exh : constant-level enumeration of the index universe on two fixed tables (one and two batch axes):
         every row selector x every column selector.
   sim : random histories (-simulate) over a heap of tables: get / set / join / cat / repeat / unsqueeze /
         arithmetic / equality / coordinates round trip / space algebra; the generator keeps the abstract
         heap with the PointsTable operators so that every reference and index it emits is well formed. *)
EXTENDS PointsTable, TLC, Json, IOUtils, SequencesExt
CONSTANTS Depth, Mode
VARIABLES heap, hist
vars == <<heap, hist>>

Names == {"x", "t", "k"}
Sp1 == <<<<"x", 2>>, <<"t", 1>>, <<"k", 1>>>>
Sp2 == <<<<"x", 1>>, <<"t", 2>>>>
Tab1(n, base) == [sp |-> Sp1, sh |-> <<n>>, c |-> [r \in 1..n |-> [j \in 1..4 |-> base + 100 * r + j]]]
Tab2 == [sp |-> Sp2, sh |-> <<2, 3>>, c |-> [i \in 1..2 |-> [j \in 1..3 |-> [m \in 1..3 |-> 1000 * i + 100 * j + m]]]]
TabOf(sp, n, base) == [sp |-> sp, sh |-> <<n>>, c |-> [r \in 1..n |-> [j \in 1..SDim(sp) |-> base + 100 * r + j]]]

IntSel(i) == [k |-> "int", i |-> i, ix |-> <<>>, a |-> 0, b |-> 0, s |-> 1, m |-> <<>>]
SliceSel(a, b, s) == [k |-> "slice", i |-> 0, ix |-> <<>>, a |-> a, b |-> b, s |-> s, m |-> <<>>]
MaskSel(m) == [k |-> "mask", i |-> 0, ix |-> <<>>, a |-> 0, b |-> 0, s |-> 1, m |-> m]
IdxSel(ix) == [k |-> "idx", i |-> 0, ix |-> ix, a |-> 0, b |-> 0, s |-> 1, m |-> <<>>]
EllSel == [k |-> "ell", i |-> 0, ix |-> <<>>, a |-> 0, b |-> 0, s |-> 1, m |-> <<>>]
RowSels(n) == {IntSel(i) : i \in (-n)..(n - 1)}
              \cup {SliceSel(a, b, s) : a \in {None, 0, 1, 2}, b \in {None, 1, 3, 5}, s \in {1, 2}}
              \cup {MaskSel(m) : m \in [1..n -> BOOLEAN]}
              \cup {IdxSel(ix) : ix \in {<<0>>, <<n - 1, 0>>, <<1, 1, 0>>, <<-1, 0>>}}
NoCol == [k |-> "none", n |-> "", ns |-> <<>>, a |-> "", b |-> "", s |-> 1]
NameSel(n) == [k |-> "name", n |-> n, ns |-> <<>>, a |-> "", b |-> "", s |-> 1]
ListSel(ns) == [k |-> "list", n |-> "", ns |-> ns, a |-> "", b |-> "", s |-> 1]
NSlice(a, b, st) == [k |-> "nslice", n |-> "", ns |-> <<>>, a |-> a, b |-> b, s |-> st]
NameLists(S) == UNION {{s \in [1..m -> S] : \A i, j \in 1..m : i # j => s[i] # s[j]} : m \in 1..Cardinality(S)}
ColSels(sp) == LET S == Range(SNames(sp)) IN
               {NoCol} \cup {NameSel(n) : n \in S} \cup {ListSel(l) : l \in NameLists(S)}
               \cup {NSlice(a, b, st) : a \in S \cup {""}, b \in S \cup {""}, st \in {1, 2, -1}}
Op0 == [a |-> "", t |-> 0, u |-> 0, sels |-> <<>>, cs |-> NoCol, n |-> 0, op |-> "", names |-> <<>>]
GetOp(t, sels, cs) == [a |-> "get", t |-> t, u |-> 0, sels |-> sels, cs |-> cs, n |-> 0, op |-> "", names |-> <<>>]
\* ---- exhaustive index universe
Exh1 == {[tabs |-> <<Tab1(4, 0)>>, ops |-> SetToSeq({GetOp(1, <<rs>>, cs) : cs \in ColSels(Sp1)})] : rs \in RowSels(4)}
        \cup {[tabs |-> <<Tab1(4, 0)>>, ops |-> SetToSeq({GetOp(1, <<>>, cs) : cs \in ColSels(Sp1)})
                                                      \o SetToSeq({GetOp(1, <<EllSel>>, cs) : cs \in ColSels(Sp1)})]}
Sels2 == {<<a>> : a \in RowSels(2)} \cup {<<a, b>> : a \in {IntSel(0), IntSel(-1), SliceSel(None, None, 1), SliceSel(1, None, 1), IdxSel(<<1, 0>>)},
                                                     b \in {IntSel(1), IntSel(-3), SliceSel(None, 2, 1), SliceSel(None, None, 2), MaskSel(<<TRUE, FALSE, TRUE>>)}}
         \cup {<<EllSel>>}
\* two batch axes: an advanced row index together with a column selection is outside the modelled universe
Adv(ss) == \E i \in DOMAIN ss : ss[i].k \in {"mask", "idx"}
\* (a stepped slice WITHOUT names after an incomplete row part is a row selector of the next batch axis, not a column part)
Exh2 == {[tabs |-> <<Tab2>>, ops |-> SetToSeq({GetOp(1, ss, cs) : cs \in {c \in ColSels(Sp2) : (c.k = "none" \/ ~Adv(ss))
                                                   /\ ~(c.k = "nslice" /\ c.a = "" /\ c.b = "" /\ c.s # 1 /\ Len(ss) < 2)}})] : ss \in Sels2}
\* every ordered selection of distinct variables of a 4-variable table as the column part of an ASSIGNMENT
Sp4 == <<<<"k", 1>>, <<"x", 2>>, <<"t", 1>>, <<"z", 1>>>>
SetOp(t, rs, cs, n) == [a |-> "set", t |-> t, u |-> 0, sels |-> <<rs>>, cs |-> cs, n |-> n, op |-> "", names |-> <<>>]
ExhSet == {[tabs |-> <<TabOf(Sp4, 3, 0)>>,
            ops |-> SetToSeq({SetOp(1, rs, ListSel(l), IF rs.k = "int" THEN 1 ELSE Len(RowIdx(rs, 3))) : l \in {q \in NameLists(Range(SNames(Sp4))) : Len(q) = m}})] :
              m \in 2..4, rs \in {SliceSel(None, None, 1), SliceSel(1, None, 1), IntSel(-1), IdxSel(<<2, 0>>)}}
\* ... and as the column part of a SELECTION (with no row part, an Ellipsis, a slice, an integer): permutations of four
\* variables can keep the first and the last column in place while the middle ones move
ExhGet4 == {[tabs |-> <<TabOf(Sp4, 3, 0)>>, ops |-> SetToSeq({GetOp(1, ss, ListSel(l)) : l \in NameLists(Range(SNames(Sp4)))})] :
              ss \in {<<>>, <<EllSel>>, <<SliceSel(None, None, 1)>>, <<IntSel(-1)>>, <<SliceSel(1, None, 1)>>}}
\* space algebra on every ordered pair of a pool in which the same name occurs with different dimensions and in different positions
SpPool == {<<<<"x", 1>>>>, <<<<"x", 2>>>>, <<<<"x", 3>>>>, <<<<"x", 2>>, <<"t", 1>>>>, <<<<"t", 1>>, <<"x", 2>>>>, <<<<"x", 1>>, <<"t", 2>>>>,
           <<<<"t", 1>>>>, <<<<"k", 1>>, <<"x", 3>>, <<"t", 1>>>>}
ExhSpace == {[tabs |-> <<TabOf(sa, 1, 0), TabOf(sb, 1, 1000)>>,
              ops |-> <<[Op0 EXCEPT !.a = "space", !.t = 1, !.u = 2], [Op0 EXCEPT !.a = "space", !.t = 2, !.u = 1]>>] : sa \in SpPool, sb \in SpPool}
\* repeat with two counts on the two-axis table (n = 10 * n1 + n2), and with one count
ExhRep == {[tabs |-> <<Tab2>>, ops |-> <<[Op0 EXCEPT !.a = "repeat2", !.t = 1, !.n = 10 * n1 + n2]>>] : n1 \in 1..2, n2 \in 1..3}
ExhScen == Exh1 \cup Exh2 \cup ExhSet \cup ExhGet4 \cup ExhSpace \cup ExhRep

\* ---- histories
R(S) == RandomElement(S)
SubSpaces == {<<<<"x", 2>>, <<"t", 1>>>>, <<<<"t", 1>>, <<"x", 2>>>>, <<<<"k", 1>>>>, <<<<"x", 2>>>>, <<<<"k", 1>>, <<"t", 1>>>>, Sp1, <<<<"t", 1>>>>}
\* a space over the names sa does not use (so that joins are possible)
Comp(sa) == LET rest == {nm \in {"x", "t", "k", "z"} : ~SHas(sa, nm)} IN
            IF "z" \in rest /\ "k" \in rest THEN <<<<"z", 2>>, <<"k", 1>>>> ELSE <<<<"z", 1>>>>
Init == /\ hist = <<>>
        /\ \E sa \in SubSpaces, sb \in SubSpaces, n \in 1..4 :      \* all initial heaps; -simulate picks one per trace
              heap = <<TabOf(sa, n, 0), TabOf(sb, n, 1000), TabOf(sa, n, 2000), TabOf(Comp(sa), n, 3000)>>
One(t) == Len(t.sh) = 1
AbsI(x) == IF x < 0 THEN -x ELSE x
RECURSIVE MaxAbsSeq(_)
MaxAbsSeq(q) == IF q = <<>> THEN 0 ELSE LET m == MaxAbsSeq(Tail(q)) IN IF AbsI(Head(q)) > m THEN AbsI(Head(q)) ELSE m
MaxAbs(t) == MaxAbsSeq(Flatten(t.c))            \* one batch axis
\* keep every cell an integer that single precision represents exactly (|cell| < 2^24): a history may convert a table to float32
Small(t, u, op) == IF op = "mul" THEN MaxAbs(t) < 4000 /\ MaxAbs(u) < 4000 ELSE MaxAbs(t) + MaxAbs(u) < 16000000
Emitop(o, res) == hist' = Append(hist, o) /\ heap' = (IF Len(heap) < 9 THEN Append(heap, res) ELSE heap)
Next == /\ Len(hist) < Depth
        /\ \E i \in {R(DOMAIN heap)}, j \in {R(DOMAIN heap)}, w \in {R(1..14)} :
           LET t == heap[i]  u == heap[j] IN
           CASE w \in {1, 2, 3} /\ One(t) ->
                  \E rs \in {R(RowSels(t.sh[1]) \cup {EllSel})}, cs \in {R(ColSels(t.sp))} :
                     IF GetValid(t, <<rs>>, cs) /\ ColSpace(t.sp, cs) # <<>>
                     THEN Emitop([Op0 EXCEPT !.a = "get", !.t = i, !.sels = <<rs>>, !.cs = cs], Get(t, <<rs>>, cs))
                     ELSE UNCHANGED vars
             [] w = 4 /\ One(t) /\ One(u) /\ JoinValid(t, u) -> Emitop([Op0 EXCEPT !.a = "join", !.t = i, !.u = j], Join(t, u))
             [] w = 5 /\ CatValid(t, u) /\ One(t) /\ t.sh[1] + u.sh[1] <= 8 -> Emitop([Op0 EXCEPT !.a = "cat", !.t = i, !.u = j], Cat(t, u))
             [] w = 5 /\ ~CatValid(t, u) /\ One(t) /\ One(u) ->      \* an attempt the API has to reject (different spaces)
                  hist' = Append(hist, [Op0 EXCEPT !.a = "badcat", !.t = i, !.u = j]) /\ UNCHANGED heap
             [] w = 6 /\ One(t) /\ t.sh[1] <= 3 -> \E n \in {R(1..3)} : Emitop([Op0 EXCEPT !.a = "repeat", !.t = i, !.n = n], Repeat(t, n))
             [] w \in {7, 14} /\ One(t) /\ One(u) /\ ArithValid(t, u) -> LET j2 == j  u2 == u IN
                  \E op \in {R({"add", "sub", "mul", "eq", "div", "pow"})} :
                     IF op = "eq" THEN hist' = Append(hist, [Op0 EXCEPT !.a = "eq", !.t = i, !.u = j2]) /\ UNCHANGED heap
                     \* quotient: only where every cell of u divides the cell of t (t / t, (t * u) / u, ...); power: exponent cells 0, 1, 2
                     ELSE IF op = "div" THEN (IF \A r \in DOMAIN t.c : \A c \in DOMAIN t.c[r] : u2.c[r][c] > 0 /\ t.c[r][c] >= 0 /\ t.c[r][c] % u2.c[r][c] = 0
                                             THEN Emitop([Op0 EXCEPT !.a = "arith", !.t = i, !.u = j, !.op = op], Arith(t, u2, op)) ELSE UNCHANGED vars)
                     ELSE IF op = "pow" THEN (IF (\A r \in DOMAIN t.c : \A c \in DOMAIN t.c[r] : u2.c[r][c] \in 0..2) /\ MaxAbs(t) < 4000
                                             THEN Emitop([Op0 EXCEPT !.a = "arith", !.t = i, !.u = j, !.op = op], Arith(t, u2, op)) ELSE UNCHANGED vars)
                     ELSE IF Small(t, u2, op) THEN Emitop([Op0 EXCEPT !.a = "arith", !.t = i, !.u = j, !.op = op], Arith(t, u2, op))
                     ELSE UNCHANGED vars
             [] w = 8 /\ One(t) ->
                  \E rs \in {R({s \in RowSels(t.sh[1]) : s.k # "int" \/ TRUE})}, cs \in {R({c \in ColSels(t.sp) : c.k # "nslice"})} :
                     LET sub == ColSpace(t.sp, cs)
                         nr == IF rs.k = "int" THEN 1 ELSE Len(RowIdx(rs, t.sh[1])) IN
                     IF GetValid(t, <<rs>>, cs) /\ nr >= 1
                     THEN /\ hist' = Append(hist, [Op0 EXCEPT !.a = "set", !.t = i, !.sels = <<rs>>, !.cs = cs, !.n = nr])
                          /\ heap' = [heap EXCEPT ![i] = Set1(t, rs, cs, TabOf(sub, nr, 5000 + 10 * Len(hist)))]
                     ELSE UNCHANGED vars
             [] w = 9 /\ One(t) ->
                  \E d \in {R({0, 1, -1})} : Emitop([Op0 EXCEPT !.a = "unsq", !.t = i, !.n = d], Unsq(t, IF d = 0 THEN 0 ELSE 1))
             [] w = 10 /\ One(t) /\ Len(heap) < 9 ->        \* reorder all variables, then compare with the original
                  \E pm \in {R({l \in NameLists(Range(SNames(t.sp))) : Len(l) = Len(t.sp)})} :
                     /\ hist' = hist \o <<[Op0 EXCEPT !.a = "get", !.t = i, !.sels = <<>>, !.cs = ListSel(pm)],
                                           [Op0 EXCEPT !.a = "eq", !.t = i, !.u = Len(heap) + 1]>>
                     /\ heap' = Append(heap, Get(t, <<>>, ListSel(pm)))
             [] w = 13 /\ One(t) -> hist' = Append(hist, [Op0 EXCEPT !.a = "iter", !.t = i]) /\ UNCHANGED heap       \* list(points): one table per row
             [] w = 11 -> \E dt \in {R({32, 64})} : hist' = Append(hist, [Op0 EXCEPT !.a = "to", !.t = i, !.n = dt]) /\ UNCHANGED heap
             [] OTHER -> \E eq \in {R(BOOLEAN)} : hist' = Append(hist, [Op0 EXCEPT !.a = IF eq THEN "eq" ELSE "space", !.t = i, !.u = j]) /\ UNCHANGED heap
Spec == Init /\ [][Next]_vars
InitTabs == SubSeq(heap, 1, 3)
Emit == (Len(hist) >= Depth) => TLCSet(2, TLCGet(2) \cup {[tabs |-> [i \in 1..4 |-> [sp |-> heap[i].sp, sh |-> heap[i].sh, c |-> TabOf(heap[i].sp, heap[i].sh[1], 1000 * (i - 1)).c]], ops |-> hist]})
Post == ndJsonSerialize(IOEnv.OUT_FILE, SetToSeq(IF Mode = "exh" THEN ExhScen ELSE TLCGet(2)))
        /\ PrintT(<<"SCENARIOS", Cardinality(IF Mode = "exh" THEN ExhScen ELSE TLCGet(2))>>)
ASSUME TLCSet(2, {})
==========================================================================

------------------------------ MODULE UserFun ------------------------------
(* Name-based calling convention of wrapped user functions (utils/user_fun.py), property C13.
   A signature is a sequence of parameters [n |-> name, d |-> has default, v |-> default value];
   defaults form a suffix (Python's rule).  Values are integers.  A wrapper is
        [args : Seq(Name), defaults : partial map Name -> Val]
   The wrapped function returns  SUM_i P[i] * (value received for its i-th declared parameter),
   so its result reveals which value arrived at which parameter.                              *)
EXTENDS Integers, Sequences, FiniteSets
P == <<2, 3, 5, 7, 11>>
Range(s) == {s[i] : i \in DOMAIN s}
RECURSIVE SumTo(_, _)
SumTo(f, n) == IF n = 0 THEN 0 ELSE f[n] + SumTo(f, n - 1)

\* ------------------------------ Abs -----------------------------------
WrapOf(sig) == [args |-> [i \in DOMAIN sig |-> sig[i].n],
                defaults |-> [a \in {sig[i].n : i \in {j \in DOMAIN sig : sig[j].d}} |->
                                 (CHOOSE i \in DOMAIN sig : sig[i].n = a /\ sig[i].d) ] ]
\* (the CHOOSE picks the index; the value is looked up below)
WrapDefaults(sig) == [a \in {sig[i].n : i \in {j \in DOMAIN sig : sig[j].d}} |->
                         sig[CHOOSE i \in DOMAIN sig : sig[i].n = a].v]
Wrap(sig) == [args |-> [i \in DOMAIN sig |-> sig[i].n], defaults |-> WrapDefaults(sig)]

Required(w) == {a \in Range(w.args) : a \notin DOMAIN w.defaults}
CanCall(w, M) == Required(w) \subseteq DOMAIN M
\* exactly the declared parameters, each bound to M[name], absent optional ones to the default
Recv(w, M) == [a \in Range(w.args) |-> IF a \in DOMAIN M THEN M[a] ELSE w.defaults[a]]
RetOf(w, r) == SumTo([i \in DOMAIN w.args |-> P[i] * r[w.args[i]]], Len(w.args))
CallRet(w, M) == RetOf(w, Recv(w, M))
\* partial evaluation: bindings for declared parameters become defaults of a NEW wrapper
Merge(f, g) == [a \in (DOMAIN f) \cup (DOMAIN g) |-> IF a \in DOMAIN g THEN g[a] ELSE f[a]]   \* g wins
Restrict(f, S) == [a \in (DOMAIN f) \cap S |-> f[a]]
PEWrapper(w, B) == [args |-> w.args, defaults |-> Merge(w.defaults, Restrict(B, Range(w.args)))]
SetDef(w, B) == PEWrapper(w, B)
RmDef(w, names) == [args |-> w.args, defaults |-> Restrict(w.defaults, (DOMAIN w.defaults) \ names)]
\* the law of partial evaluation:  Call(PE(w, B), R) = Call(w, B overridden by R)
PELaw(w, B, Rs) == \A R \in Rs :
     /\ CanCall(PEWrapper(w, B), R) <=> CanCall(w, Merge(B, R))
     /\ CanCall(w, Merge(B, R)) => CallRet(PEWrapper(w, B), R) = CallRet(w, Merge(B, R))
=============================================================================

---------------------------- MODULE Trace_C13 ----------------------------
(* Trace validation for C13: a history of operations on a heap of real UserFunction objects.  The monitor
   keeps the ABSTRACT heap (UserFun.tla) and checks after every event: what the user function received,
   what was returned, which wrappers exist and that nothing else changed (frame conditions). *)
EXTENDS UserFun, TLC, TLCExt, Json, IOUtils
Traces == JsonDeserialize(IOEnv.TRACE_FILE)
VARIABLES tid, l, verdict, heap, alias
vars == <<tid, l, verdict, heap, alias>>
T == Traces[tid]
Ev == T.events
Bad(c) == IF verdict = "ok" THEN c \o "@" \o ToString(l) ELSE verdict
AsMap(r) == [a \in DOMAIN r |-> r[a]]
ViewOf(h) == [args |-> h.args, defaults |-> AsMap(h.defaults)]
Logged(e) == [i \in DOMAIN e.heap |-> ViewOf(e.heap[i])]
Norm(w) == [args |-> w.args, defaults |-> AsMap(w.defaults)]
SameHeap(a, b) == Len(a) = Len(b) /\ \A i \in DOMAIN a : a[i].args = b[i].args /\ AsMap(a[i].defaults) = AsMap(b[i].defaults)
IsExc(r) == r = "exc"
Aliased(i, j) == <<i, j>> \in alias

\* clause that fails for event e in abstract heap h ("ok" if none), and the abstract heap afterwards
Clause(e, h) ==
  LET w == IF e.w >= 1 /\ e.w <= Len(h) THEN h[e.w] ELSE [args |-> <<>>, defaults |-> <<>>]
      M == AsMap(e.M)  R == AsMap(e.R)  lg == Logged(e)
  IN
  CASE e.a = "wrap" ->
         IF IsExc(e.res) THEN "wrap-failed"
         ELSE IF ~SameHeap(lg, Append(h, Wrap(e.sig))) THEN "wrap-signature-misread" ELSE "ok"
    [] e.a = "call" ->
         IF ~CanCall(w, M)
         THEN IF IsExc(e.res) THEN (IF SameHeap(lg, h) THEN "ok" ELSE "call-changed-a-wrapper") ELSE "missing-required-name-accepted"
         ELSE IF IsExc(e.res) THEN "call-failed:" \o e.excn
         ELSE IF AsMap(e.recv) # Recv(w, M) THEN "received-arguments"
         ELSE IF e.ret # RetOf(w, Recv(w, M)) THEN "return-value"
         ELSE IF ~e.M_same THEN "user-mapping-changed"
         ELSE IF ~SameHeap(lg, h) THEN "call-changed-a-wrapper" ELSE "ok"
    [] e.a \in {"pe", "pecall"} ->
         IF IsExc(e.res) THEN "partial-evaluation-failed:" \o e.excn
         ELSE IF ~e.M_same THEN "user-mapping-changed"
         ELSE IF CanCall(w, M)
         THEN IF e.res # "value" THEN "complete-binding-not-evaluated"
              ELSE IF AsMap(e.recv) # Recv(w, M) THEN "received-arguments"
              ELSE IF e.ret # RetOf(w, Recv(w, M)) THEN "return-value"
              ELSE IF ~SameHeap(lg, h) THEN "partial-evaluation-changed-a-wrapper" ELSE "ok"
         ELSE IF e.res # "wrapper" THEN "incomplete-binding-evaluated"
              ELSE IF ~SameHeap(lg, Append(h, PEWrapper(w, M))) THEN "partial-evaluation-changed-a-wrapper"
              ELSE IF e.a = "pe" THEN "ok"
              ELSE LET nw == PEWrapper(w, M) IN
                   IF ~CanCall(nw, R) THEN (IF IsExc(e.res2) THEN "ok" ELSE "missing-required-name-accepted")
                   ELSE IF e.res2 # "ok" THEN "call-failed:" \o e.excn
                   ELSE IF AsMap(e.recv2) # Recv(w, Merge(M, R)) THEN "pe-law-received-arguments"
                   ELSE IF e.ret2 # CallRet(w, Merge(M, R)) THEN "pe-law-return-value" ELSE "ok"
    [] e.a \in {"setdef", "rmdef"} ->
         LET nw == IF e.a = "setdef" THEN SetDef(w, M) ELSE RmDef(w, {e.names[i] : i \in DOMAIN e.names}) IN
         IF e.a = "rmdef" /\ \E i \in DOMAIN e.names : e.names[i] \notin DOMAIN w.defaults
         THEN (IF SameHeap(lg, h) \/ ~IsExc(e.res) THEN "ok" ELSE "failed-remove-changed-a-wrapper")   \* outside the API
         ELSE IF IsExc(e.res) THEN "set-default-failed:" \o e.excn
         ELSE IF Len(lg) # Len(h) THEN "heap-size"
         ELSE IF Norm(lg[e.w]) # Norm(nw) THEN "set-default-result"
         ELSE IF \E j \in DOMAIN h : j # e.w /\ Norm(lg[j]) # Norm(h[j])
                                     /\ ~(Aliased(e.w, j) /\ AsMap(lg[j].defaults) = AsMap(nw.defaults))
              THEN "set-default-changed-an-unrelated-wrapper" ELSE "ok"
    [] e.a \in {"copy", "rewrap"} ->
         IF ~SameHeap(lg, Append(h, w)) THEN "copy-differs" ELSE "ok"
    [] e.a = "skip" -> IF SameHeap(lg, h) THEN "ok" ELSE "heap-changed"
    [] OTHER -> "unknown-event"

Init == /\ tid \in 1..Len(Traces) /\ l = 1 /\ heap = <<>> /\ alias = {}
        /\ verdict = (IF "driver_error" \in DOMAIN Traces[tid] THEN "driver-error" ELSE "ok")
Step == /\ l <= Len(Ev) /\ l' = l + 1 /\ tid' = tid
        /\ LET e == Ev[l]  c == Clause(e, heap) IN
           /\ verdict' = (IF c = "ok" THEN verdict ELSE Bad(c))
           /\ heap' = Logged(e)                                  \* resynchronise on the observation
           /\ alias' = IF e.a = "rewrap"
                       THEN LET n == Len(heap) + 1
                                grp == {e.w} \cup {j \in 1..Len(heap) : Aliased(e.w, j)}
                            IN alias \cup {<<n, j>> : j \in grp} \cup {<<j, n>> : j \in grp}
                       ELSE alias
Next == Step
Fin == (l = Len(Ev) + 1) =>
          /\ TLCSet(1, TLCGet(1) \cup {tid})
          /\ (verdict = "ok" \/ PrintT(<<"REJ", T.tid, verdict, "">>))
Post == PrintT(<<"VALIDATED", Cardinality(TLCGet(1))>>)
ASSUME TLCSet(1, {})
==========================================================================

SPECIFICATION Spec
CONSTANTS Dev = "skip" NM = 2 NF = 2 MaxDraw = 4 MaxStep = 3
INVARIANT OwnFunctions
INVARIANT SameIterationSameBatch
CHECK_DEADLOCK FALSE

---------------------------- MODULE Trace_C18 ----------------------------
(* Trace validation for C18: the recorded bounding box (outward rounded to fine units) must contain every lattice
   point of the denoted set for every supplied parameter row, equal the exact box for primitives at a single row,
   and the normalization layer built from it must map the domain's points into [-1, 1]^d. *)
EXTENDS Geometry, TLC, TLCExt, Json, IOUtils
Traces == JsonDeserialize(IOEnv.TRACE_FILE)
VARIABLES tid, verdict, dev, judged
Tol == 3
E(t) == t.scenario.expr
Lat == {-896 + 96 * i + 7 : i \in 0..18}
LatU == {-896 + 64 * i + 7 : i \in 0..28}
Lat3 == {-896 + 128 * i + 7 : i \in 0..14}
Dim(e) == LET sp == SpaceOf(e) IN IF Len(sp) = 1 THEN sp[1][2] ELSE sp[1][2] + sp[2][2]
\* lattice points (as Q) of the space of e, at parameter row prm (fine units)
PVal(prm, free) == [n \in free |-> IF n \in DOMAIN prm THEN <<prm[n]>> ELSE <<0>>]
QsOf(e, prm) ==
    LET sp == SpaceOf(e)  pv == PVal(prm, FreeVars(e) \ SpaceVars(e)) IN
    IF sp = <<<<"x", 2>>>> THEN {[val |-> [n \in DOMAIN pv \cup {"x"} |-> IF n = "x" THEN <<p[1], p[2]>> ELSE pv[n]], w |-> 1] : p \in Lat \X Lat}
    ELSE IF sp = <<<<"u", 1>>>> THEN {[val |-> [n \in DOMAIN pv \cup {"u"} |-> IF n = "u" THEN <<p>> ELSE pv[n]], w |-> 1] : p \in LatU}
    ELSE IF sp = <<<<"x", 2>>, <<"u", 1>>>> THEN {[val |-> [n \in DOMAIN pv \cup {"x", "u"} |-> IF n = "x" THEN <<p[1], p[2]>> ELSE IF n = "u" THEN <<p[3]>> ELSE pv[n]], w |-> 1]
                                                  : p \in Lat \X Lat \X {-505, -249, 7, 263, 519}}
    ELSE IF sp = <<<<"y", 3>>>> THEN {[val |-> [n \in DOMAIN pv \cup {"y"} |-> IF n = "y" THEN <<p[1], p[2], p[3]>> ELSE pv[n]], w |-> 1] : p \in Lat3 \X Lat3 \X Lat3}
    ELSE {}
\* coordinates of Q in space order
Flat(e, q) == LET sp == SpaceOf(e) IN IF Len(sp) = 1 THEN q.val[sp[1][1]] ELSE q.val[sp[1][1]] \o q.val[sp[2][1]]
InBox(e, q, box) == LET c == Flat(e, q) IN \A i \in DOMAIN c : box[2 * i - 1] - Tol <= c[i] /\ c[i] <= box[2 * i] + Tol
Encloses(e, prm, box) == \A q \in QsOf(e, prm) : In(e, q) => InBox(e, q, box)
Env(prm) == [n \in DOMAIN prm |-> prm[n] \div F]
Tight(e, prm, box) == LET ex == BoxExact(e, Env(prm)) IN \A i \in DOMAIN ex : box[i] - ex[i] <= Tol /\ ex[i] - box[i] <= Tol
\* a boundary lies in the closed domain it bounds: boxes are judged against the expression with boundaries removed
RECURSIVE InnerD(_)
InnerD(e) == CASE e.k \in {"bd", "bdl", "bdr"} -> InnerD(e.d)
               [] e.k \in {"trans", "rot"} -> [e EXCEPT !.d = InnerD(e.d)]
               [] e.k \in {"union", "cut", "and", "prod"} -> [e EXCEPT !.l = InnerD(e.l), !.r = InnerD(e.r)]
               [] OTHER -> e
RECURSIVE HasNode(_, _)
HasNode(e, kind) == e.k = kind \/ (e.k \in {"union", "cut", "and", "prod"} /\ (HasNode(e.l, kind) \/ HasNode(e.r, kind)))
                    \/ (e.k \in {"trans", "rot", "bd", "bdl", "bdr"} /\ HasNode(e.d, kind))
\* acknowledged deviation "dep_product_box_estimate": the box of a product whose first factor depends on the second
\* factor's coordinate is estimated from 10 random points of the second factor (the code warns), so it may cut the domain
DepBox(e) == IF e.k = "prod" /\ FreeVars(e.l) \cap SpaceVars(e.r) # {} THEN "dep_product_box_estimate" ELSE ""
Check(t) ==
    IF "driver_error" \in DOMAIN t THEN <<"driver-error", "", 0>>
    ELSE LET e == InnerD(E(t))        \* the box of a boundary is judged against the closed domain it bounds
             d == Dim(e)
             rows == IF t.prm = <<>> THEN <<<<>>>> ELSE t.prm
         IN
         IF e.k = "point" \/ HasNode(e, "point") THEN <<"ok", "", 0>>
         \* (a product / union containing a Translate fails when concatenating the per-row box of the known finding)
         ELSE IF t.box_exc # "" THEN <<"bounding-box-failed:" \o t.box_exc,
                                       IF HasNode(E(t), "trans") /\ t.box_exc = "RuntimeError" /\ E(t).k \in {"prod", "union", "and"} THEN "translate_bbox_per_row" ELSE "", 0>>
         ELSE IF t.box_shape # <<2 * d>> THEN
              <<"box-shape", IF HasNode(E(t), "trans") /\ Len(t.box_shape) = 2 /\ t.box_shape[2] = 2 * d THEN "translate_bbox_per_row" ELSE "", 0>>
         ELSE IF \E i \in DOMAIN rows : ~Encloses(e, rows[i], t.box) THEN <<"box-does-not-enclose-domain", DepBox(e), Len(rows)>>
         ELSE IF \E j \in DOMAIN t.single : t.single[j].box_exc = "" /\ t.single[j].box_shape = <<2 * d>>
                      /\ ~Encloses(e, rows[j], t.single[j].box) THEN <<"box-does-not-enclose-domain(single row)", DepBox(e), Len(rows)>>
         ELSE IF HasBox(e) /\ \E j \in DOMAIN t.single : t.single[j].box_exc = "" /\ ~Tight(e, rows[j], t.single[j].box) THEN <<"box-not-tight", "", Len(rows)>>
         ELSE IF t.norm_exc \notin {"", "none"} THEN <<"normalization-layer-failed:" \o t.norm_exc, "", Len(rows)>>
         ELSE IF \E i \in DOMAIN t.norm : In(e, [val |-> t.norm[i].q.val, w |-> 1])
                                          /\ \E j \in DOMAIN t.norm[i].out : t.norm[i].out[j] > 256 + Tol \/ t.norm[i].out[j] < -256 - Tol
              THEN <<"normalization-outside-unit-box", DepBox(e), Len(rows)>>          \* (the layer is built from the estimated box)
         \* whole-number positions handed over as integer tensors: the box of the primitive is still tight
         ELSE IF "boxint_exc" \in DOMAIN t /\ t.boxint_exc \notin {"", "none"} THEN <<"bounding-box-failed(integer positions):" \o t.boxint_exc, "", Len(rows)>>
         ELSE IF "boxint" \in DOMAIN t /\ t.boxint # <<>> /\ HasBox(e) /\ (~Encloses(e, rows[1], t.boxint) \/ ~Tight(e, rows[1], t.boxint)) THEN <<"bounding-box(integer positions)", "", Len(rows)>>
         \* the user-set box of the first operand (a product) after the box of the intersection was computed: it still encloses the operand
         ELSE IF "pbox_hist_exc" \in DOMAIN t /\ t.pbox_hist_exc \notin {"", "none"} THEN <<"bounding-box-history-failed:" \o t.pbox_hist_exc, "", Len(rows)>>
         ELSE IF "pbox_hist" \in DOMAIN t /\ t.pbox_hist # <<>> /\ ~Encloses(e.l, rows[1], t.pbox_hist) THEN <<"user-set-box-of-an-operand-changed-by-the-intersection", "", Len(rows)>>
         \* the layer selects its input by variable name: the same points with the variables in the opposite order have the same images
         ELSE IF "norm_perm_exc" \in DOMAIN t /\ t.norm_perm_exc # "" THEN <<"normalization-layer-failed(permuted variables):" \o t.norm_perm_exc, "", Len(rows)>>
         ELSE IF "norm_perm" \in DOMAIN t /\ (Len(t.norm_perm) # Len(t.norm) \/ \E i \in DOMAIN t.norm : t.norm_perm[i] # t.norm[i].out)
              THEN <<"normalization-depends-on-variable-order", "", Len(rows)>>
         ELSE <<"ok", "", Len(rows)>>
Init == tid \in 1..Len(Traces) /\ LET r == Check(Traces[tid]) IN verdict = r[1] /\ dev = r[2] /\ judged = r[3]
Next == FALSE /\ UNCHANGED <<tid, verdict, dev, judged>>
Report == /\ TLCSet(1, TLCGet(1) \cup {tid})
          /\ TLCSet(5, TLCGet(5) + judged)
          /\ (verdict = "ok" \/ PrintT(<<"REJ", Traces[tid].tid, verdict, dev>>))
Post == PrintT(<<"VALIDATED", Cardinality(TLCGet(1))>>) /\ PrintT(<<"JUDGED", TLCGet(5)>>)
ASSUME TLCSet(1, {}) /\ TLCSet(5, 0)
==========================================================================

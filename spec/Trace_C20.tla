---------------------------- MODULE Trace_C20 ----------------------------
(* Trace validation for C20: recorded input / output fields (fixed point 2^-12) of real Fourier layers and FNOs. *)
EXTENDS Fourier, TLC, TLCExt, Json, IOUtils, FiniteSets
Traces == JsonDeserialize(IOEnv.TRACE_FILE)
VARIABLES tid, verdict, dev
Tol == 6
Sc(t) == t.scenario
ShiftOK(t) == \A i \in DOMAIN t.shifts :
                 LET r == t.shifts[i] IN
                 IF Sc(t).d = 1 THEN Close1(r.y, Shift1(t.y0, r.s), Tol) ELSE Close2(r.y, Shift2(t.y0, r.s), Tol)
\* the driver's shifted INPUT really is the shift of the recorded input (binding of the scenario to the law)
InputShiftOK(t) == \A i \in DOMAIN t.shifts :
                 LET r == t.shifts[i] IN
                 IF Sc(t).d = 1 THEN Close1(r.u, Shift1(t.u0, r.s), 0) ELSE Close2(r.u, Shift2(t.u0, r.s), 0)
\* same batch size and the same number of nodes along every spatial axis
SameGrid(y, u) == Len(y) = Len(u) /\ \A b \in DOMAIN y : Len(y[b]) = Len(u[b]) /\ \A i \in DOMAIN y[b] : Len(y[b][i]) = Len(u[b][i])
Check(t) ==
    IF "driver_error" \in DOMAIN t THEN "driver-error"
    ELSE IF t.exc # "" THEN "model-failed:" \o t.exc
    ELSE IF ~t.input_unchanged THEN "input-tensor-modified"
    \* the caller's Points held the input variables in another order than the model's input space: same result
    ELSE IF "order" \in DOMAIN t /\ \E i \in DOMAIN t.order : ~(IF Sc(t).d = 1 THEN Close1(t.order[i].y, t.order[i].ys, 0) ELSE Close2(t.order[i].y, t.order[i].ys, 0))
         THEN "result-depends-on-variable-order-of-input-points"
    ELSE IF ~InputShiftOK(t) THEN "driver-shift-mismatch"
    ELSE IF ~ShiftOK(t) THEN "not-shift-equivariant"
    \* the same object on a grid with one more node along the last axis: output on THAT grid, equivariant there
    ELSE IF ~SameGrid(t.res2.y0, t.res2.u0) THEN "output-grid-differs-from-input-grid(second resolution)"
    ELSE IF ~(IF Sc(t).d = 1 THEN Close1(t.res2.y, Shift1(t.res2.y0, t.res2.s), Tol) ELSE Close2(t.res2.y, Shift2(t.res2.y0, t.res2.s), Tol))
         THEN "not-shift-equivariant(second resolution)"
    \* a layer / FNO is a function of its input: the same field gives the same output before and after calls at other resolutions
    ELSE IF "again" \in DOMAIN t /\ ~(IF Sc(t).d = 1 THEN Close1(t.again.y1, t.again.y0, Tol) ELSE Close2(t.again.y1, t.again.y0, Tol))
         THEN "output-depends-on-earlier-calls-at-other-resolutions"
    ELSE IF "refine" \in DOMAIN t /\ \E i \in DOMAIN t.refine : ~RefineOK(t.refine[i].yc, t.refine[i].yf, t.refine[i].m, Tol) THEN "resolution-inconsistent"
    ELSE "ok"
Init == tid \in 1..Len(Traces) /\ verdict = Check(Traces[tid]) /\ dev = ""
Next == FALSE /\ UNCHANGED <<tid, verdict, dev>>
Report == /\ TLCSet(1, TLCGet(1) \cup {tid})
          /\ (verdict = "ok" \/ PrintT(<<"REJ", Traces[tid].tid, verdict, dev>>))
Post == PrintT(<<"VALIDATED", Cardinality(TLCGet(1))>>)
ASSUME TLCSet(1, {})
==========================================================================

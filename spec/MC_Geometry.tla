---------------------------- MODULE MC_Geometry ----------------------------
(* Design-level laws of the denotation, checked by TLC over all depth<=1 expressions of Gen_Geo, all bindings
   of t,k in {0,1,2} and a lattice of points:
     substitution:   In(PE(e, b), Q) = In(e, Q extended by b)        (partial evaluation = supplying parameters)
     free variables: FreeVars(PE(e, b)) = FreeVars(e) \ DOMAIN b ;  FreeVars(prod) removes the right factor's variables
     Boolean laws:   union = or, cut = and-not, intersection = and (by construction), De Morgan on the lattice
     rigid motions:  translation and rotation preserve the number of lattice points up to the boundary layer  *)
EXTENDS Gen_Geo
CONSTANTS NL
VARIABLES ex, b, step
mvars == <<ex, b, step, e, n>>
Dep == {x \in Exh : FreeVars(x) \cap {"t", "k"} # {} /\ SpaceOf(x) = <<<<"x", 2>>>>}
Binds == UNION {[S -> 0..2] : S \in (SUBSET {"t", "k"}) \ {{}}}
MInit == ex \in Dep /\ b \in Binds /\ step = 0 /\ e = ex /\ n = 0
MNext == step = 0 /\ step' = 1 /\ UNCHANGED <<ex, b, e, n>>
MSpec == MInit /\ [][MNext]_mvars
LatM == {-777 + (1554 \div NL) * i : i \in 0..NL}
Rest == {"t", "k"} \ DOMAIN b
QOf(x, y, full) == [val |-> [nm \in {"x", "t", "k"} |-> IF nm = "x" THEN <<x, y>> ELSE <<full[nm] * F>>], w |-> 1]
PELaw == \A p \in LatM \X LatM : \A r \in [Rest -> {0, 2}] :
            LET full == [nm \in {"t", "k"} |-> IF nm \in DOMAIN b THEN b[nm] ELSE r[nm]] IN
            In(PE(ex, b), QOf(p[1], p[2], full)) = In(ex, QOf(p[1], p[2], full))
FVLaw == FreeVars(PE(ex, b)) = FreeVars(ex) \ DOMAIN b
(* Self-consistency of the denotations added for polygons, polyhedra and the general rotation (the oracle is checked against a
   second, independent description of the same sets on a lattice with odd fine-unit offsets, i.e. off every boundary):
     the L-shaped polygon = union of two rectangles; the square with a hole = square minus square; the clockwise ring = the counter-
     clockwise one; the cube mesh = the box given by coordinate bounds; the tetrahedron = three lower bounds and one plane; the
     two-axis rotation zx = rotation about x followed by rotation about z; four quarter turns = identity.                       *)
Lat3 == {-777 + 222 * i : i \in 0..7}
Q2(x, y) == [val |-> [nm \in {"x"} |-> <<x, y>>], w |-> 1]
Q3(x, y, z) == [val |-> [nm \in {"y"} |-> <<x, y, z>>], w |-> 1]
FineLat2 == {-895 + 64 * i : i \in 0..28}
PolyL == Poly(<<RingL>>)
LAsRects == Un(Par(V2(-8, -8), V2(8, -8), V2(-8, 0)), Par(V2(-8, -8), V2(0, -8), V2(-8, 8)))
PolyHoleT == Poly(<<<<<<-10, -10>>, <<10, -10>>, <<10, 10>>, <<-10, 10>>>>, <<<<-2, -2>>, <<6, -2>>, <<6, 6>>, <<-2, 6>>>>>>)
HoleAsCut == Cu(Par(V2(-10, -10), V2(10, -10), V2(-10, 10)), Par(V2(-2, -2), V2(6, -2), V2(-2, 6)))
ASSUME \A p \in FineLat2 \X FineLat2 : In(PolyL, Q2(p[1], p[2])) = In(LAsRects, Q2(p[1], p[2]))
ASSUME \A p \in FineLat2 \X FineLat2 : In(PolyHoleT, Q2(p[1], p[2])) = In(HoleAsCut, Q2(p[1], p[2]))
ASSUME \A p \in FineLat2 \X FineLat2 : In(PolyL, Q2(p[1], p[2])) = In(Poly(<<[i \in 1..6 |-> RingL[7 - i]]>>), Q2(p[1], p[2]))
ASSUME \A p \in Lat3 \X Lat3 \X Lat3 : In(MeshCube, Q3(p[1], p[2], p[3])) = (\A i \in 1..3 : p[i] >= -384 /\ p[i] <= 384)
ASSUME \A p \in Lat3 \X Lat3 \X Lat3 : In(MeshTet, Q3(p[1], p[2], p[3])) = ((\A i \in 1..3 : p[i] >= -256) /\ p[1] + p[2] + p[3] <= 0)
ASSUME \A p \in Lat3 \X Lat3 \X Lat3 : In(MeshTetIn, Q3(p[1], p[2], p[3])) = In(MeshTet, Q3(p[1], p[2], p[3]))
ASSUME \A m \in {MeshBox, MeshTet}, p \in Lat3 \X Lat3 \X Lat3 :
          In(Ro3(m, "zx", V3(2, -4, 2)), Q3(p[1], p[2], p[3])) = In(Ro3(Ro3(m, "x345", V3(2, -4, 2)), "z345", V3(2, -4, 2)), Q3(p[1], p[2], p[3]))
ASSUME \A p \in FineLat2 \X FineLat2 : LET q == Par(V2(-8, -6), V2(4, -2), V2(-4, 6))  c == V2(2, -4) IN
          In(Ro(Ro(Ro(Ro(q, "r90", c), "r90", c), "r90", c), "r90", c), Q2(p[1], p[2])) = In(q, Q2(p[1], p[2]))
ASSUME \A m \in Meshes \cup {MeshBox} : MeshWF(m)
\* volumes: shoelace / tetrahedra against the elementary values (L: 12, hole: 25 - 4 = 21, cube 27, tetrahedron 9/2)
ASSUME Vol(PolyL, <<>>) = <<384, 0, 32>> /\ Vol(PolyHoleT, <<>>) = <<672, 0, 32>>
ASSUME Vol(MeshCube, <<>>) = <<10368, 0, 384>> /\ Vol(MeshTet, <<>>) = <<1728, 0, 384>>
=============================================================================

---------------------------- MODULE MC_Geometry ----------------------------
(* Design-level laws of the denotation, checked by TLC over all depth<=1 expressions of Gen_Geo, all bindings
   of t,k in {0,1,2} and a lattice of points:
     substitution:   In(PE(e, b), Q) = In(e, Q extended by b)        (partial evaluation = supplying parameters)
     free variables: FreeVars(PE(e, b)) = FreeVars(e) \ DOMAIN b ;  FreeVars(prod) removes the right factor's variables
     Boolean laws:   union = or, cut = and-not, intersection = and (by construction), De Morgan on the lattice
     rigid motions:  translation and rotation preserve the number of lattice points up to the boundary layer  *)
EXTENDS Gen_Geo
CONSTANTS NL
VARIABLES ex, b, step
mvars == <<ex, b, step, e, n>>
Dep == {x \in Exh : FreeVars(x) \cap {"t", "k"} # {} /\ SpaceOf(x) = <<<<"x", 2>>>>}
Binds == UNION {[S -> 0..2] : S \in (SUBSET {"t", "k"}) \ {{}}}
MInit == ex \in Dep /\ b \in Binds /\ step = 0 /\ e = ex /\ n = 0
MNext == step = 0 /\ step' = 1 /\ UNCHANGED <<ex, b, e, n>>
MSpec == MInit /\ [][MNext]_mvars
LatM == {-777 + (1554 \div NL) * i : i \in 0..NL}
Rest == {"t", "k"} \ DOMAIN b
QOf(x, y, full) == [val |-> [nm \in {"x", "t", "k"} |-> IF nm = "x" THEN <<x, y>> ELSE <<full[nm] * F>>], w |-> 1]
PELaw == \A p \in LatM \X LatM : \A r \in [Rest -> {0, 2}] :
            LET full == [nm \in {"t", "k"} |-> IF nm \in DOMAIN b THEN b[nm] ELSE r[nm]] IN
            In(PE(ex, b), QOf(p[1], p[2], full)) = In(ex, QOf(p[1], p[2], full))
FVLaw == FreeVars(PE(ex, b)) = FreeVars(ex) \ DOMAIN b
=============================================================================

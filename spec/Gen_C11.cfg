SPECIFICATION Spec
CONSTANTS Depth = 0 Mode = "exh"
CHECK_DEADLOCK FALSE

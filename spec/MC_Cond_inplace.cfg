SPECIFICATION Spec
CONSTANTS Dev = {"cond_inplace_dict"} NC = 3
INVARIANT IsolationOK
CHECK_DEADLOCK FALSE

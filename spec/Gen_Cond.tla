----------------------------- MODULE Gen_Cond -----------------------------
(* Scenario generation for C04 (single condition: kind x space orders x signature orders x static x n x residual) and
   C14 (histories: all interleavings of constructing and evaluating conditions that SHARE user dictionaries). *)
EXTENDS Conditions, TLC, Json, IOUtils, SequencesExt
CONSTANTS Mode, MaxOps
VARIABLES built, evs, hist
RowsA == <<<<1, 2>>, <<-1, 0>>, <<3, -2>>, <<0, 1>>>>
RowsB == <<<<2, -1>>, <<-3, 2>>>>
RowsC == <<<<0, 3>>>>
Con(cid, kind, rows, static, order, morder, model, res, rev, dict, kappa) ==
    [a |-> "con", c |-> cid, kind |-> kind, rows |-> rows, static |-> static, order |-> order, morder |-> morder,
     model |-> model, res |-> res, rev |-> rev, dict |-> dict, kappa |-> kappa, lo |-> -1, hi |-> 2]
Ev(cid) == [a |-> "ev", c |-> cid, kind |-> "", rows |-> <<>>, static |-> FALSE, order |-> "", morder |-> "", model |-> <<>>,
            res |-> "", rev |-> FALSE, dict |-> 0, kappa |-> 0, lo |-> 0, hi |-> 0]
KindsFor(res) == IF res \in {"per", "per0", "per_d"} THEN {"periodic"} ELSE IF res = "vec" THEN {"pinn"} ELSE {"pinn", "mean"}
Single == {[dicts |-> <<[f |-> 1, g |-> 3]>>,
            ops |-> <<Con(1, kind, SubSeq(RowsA, 1, n), st, ord, mord, <<2, -1, 3>>, res, rev, 1, IF res = "ku_x" THEN 3 ELSE 0), Ev(1), Ev(1)>>] :
              res \in {"u_f", "ku_x", "ux_t", "echo", "echofg", "vec", "per", "per0", "per_d"}, kind \in {"pinn", "mean", "periodic"},
              n \in {1, 2, 4}, st \in BOOLEAN, ord \in {"xt", "tx"}, mord \in {"xt", "tx"}, rev \in BOOLEAN}
SingleOK == {s \in Single : s.ops[1].kind \in KindsFor(s.ops[1].res)}
\* ---- histories
Cands == << Con(1, "pinn", RowsA, TRUE, "xt", "xt", <<2, -1, 3>>, "u_f", FALSE, 1, 0),
            Con(2, "pinn", RowsB, TRUE, "tx", "xt", <<1, 1, 0>>, "echofg", TRUE, 1, 0),
            Con(3, "mean", RowsC, FALSE, "xt", "tx", <<-1, 2, 1>>, "u_f", FALSE, 1, 0),
            Con(4, "periodic", RowsB, TRUE, "xt", "xt", <<1, -2, 1>>, "per", FALSE, 1, 0),
            Con(5, "pinn", RowsB, FALSE, "xt", "xt", <<0, 1, -1>>, "vec", FALSE, 2, 0),
            Con(6, "periodic", RowsA, FALSE, "xt", "tx", <<3, 1, 0>>, "per", TRUE, 2, 0) >>
Init == built = {} /\ evs = [i \in 1..6 |-> 0] /\ hist = <<>>
Next == /\ Len(hist) < MaxOps
        /\ \/ \E i \in 1..6 : i \notin built /\ Cardinality(built) < 3 /\ built' = built \cup {i} /\ hist' = Append(hist, Cands[i]) /\ UNCHANGED evs
           \/ \E i \in built : evs[i] < 2 /\ evs' = [evs EXCEPT ![i] = @ + 1] /\ hist' = Append(hist, Ev(i)) /\ UNCHANGED built
Spec == Init /\ [][Next]_<<built, evs, hist>>
Scenario == [dicts |-> <<[f |-> 1, g |-> 3], [f |-> 2, g |-> 1]>>, ops |-> hist]
Emit == (Len(hist) = MaxOps /\ \A i \in built : evs[i] >= 1) => TLCSet(2, TLCGet(2) \cup {Scenario})
Post == ndJsonSerialize(IOEnv.OUT_FILE, SetToSeq(IF Mode = "single" THEN SingleOK ELSE TLCGet(2)))
        /\ PrintT(<<"SCENARIOS", Cardinality(IF Mode = "single" THEN SingleOK ELSE TLCGet(2))>>)
ASSUME TLCSet(2, {})
==========================================================================

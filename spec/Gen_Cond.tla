----------------------------- MODULE Gen_Cond -----------------------------
(* Scenario generation for C04 (single condition: kind x space orders x signature orders x static x n x residual) and
   C14 (histories: all interleavings of constructing and evaluating conditions that SHARE user dictionaries). *)
EXTENDS Conditions, TLC, Json, IOUtils, SequencesExt
CONSTANTS Mode, MaxOps
VARIABLES built, evs, hist
RowsA == <<<<1, 2>>, <<-1, 0>>, <<3, -2>>, <<0, 1>>>>
RowsB == <<<<2, -1>>, <<-3, 2>>>>
RowsC == <<<<0, 3>>>>
Con(cid, kind, rows, static, order, morder, model, res, rev, dict, kappa) ==
    [a |-> "con", c |-> cid, kind |-> kind, rows |-> rows, static |-> static, order |-> order, morder |-> morder,
     model |-> model, res |-> res, rev |-> rev, dict |-> dict, kappa |-> kappa, lo |-> -1, hi |-> 2, smp |-> 0, mid |-> 0, xonly |-> FALSE, track |-> TRUE]
\* a condition on a SHARED sampler object sid (Conditions.SDraws) and, with mid > 0, on a SHARED model object
ConS(cid, kind, sid, static, morder, model, res, rev, dict, mid) ==
    [Con(cid, kind, <<>>, static, "xt", morder, model, res, rev, dict, 0) EXCEPT !.smp = sid, !.mid = mid]
Ev(cid) == [a |-> "ev", c |-> cid, kind |-> "", rows |-> <<>>, static |-> FALSE, order |-> "", morder |-> "", model |-> <<>>,
            res |-> "", rev |-> FALSE, dict |-> 0, kappa |-> 0, lo |-> 0, hi |-> 0, smp |-> 0, mid |-> 0, xonly |-> FALSE, track |-> TRUE]
\* what Solver.on_train_start does with every condition (static data is moved to the training device)
Mv == [Ev(0) EXCEPT !.a = "mv"]
KindsFor(res) == IF res \in {"per", "per0", "per_d"} THEN {"periodic"} ELSE IF res = "vec" THEN {"pinn"} ELSE {"pinn", "mean"}
Single == {[dicts |-> <<[f |-> 1, g |-> 3]>>,
            ops |-> <<Con(1, kind, SubSeq(RowsA, 1, n), st, ord, mord, <<2, -1, 3>>, res, rev, 1, IF res = "ku_x" THEN 3 ELSE 0), Ev(1), Ev(1)>>] :
              res \in {"u_f", "ku_x", "ux_t", "echo", "echofg", "vec", "per", "per0", "per_d"}, kind \in {"pinn", "mean", "periodic"},
              n \in {1, 2, 4}, st \in BOOLEAN, ord \in {"xt", "tx"}, mord \in {"xt", "tx"}, rev \in BOOLEAN}
SingleOK == {s \in Single : s.ops[1].kind \in KindsFor(s.ops[1].res)}
\* ---- histories
Cands == << Con(1, "pinn", RowsA, TRUE, "xt", "xt", <<2, -1, 3>>, "u_f", FALSE, 1, 0),
            Con(2, "pinn", RowsB, TRUE, "tx", "xt", <<1, 1, 0>>, "echofg", TRUE, 1, 0),
            Con(3, "mean", RowsC, FALSE, "xt", "tx", <<-1, 2, 1>>, "u_f", FALSE, 1, 0),
            Con(4, "periodic", RowsB, TRUE, "xt", "xt", <<1, -2, 1>>, "per", FALSE, 1, 0),
            Con(5, "pinn", RowsB, FALSE, "xt", "xt", <<0, 1, -1>>, "vec", FALSE, 2, 0),
            Con(6, "periodic", RowsA, FALSE, "xt", "tx", <<3, 1, 0>>, "per", TRUE, 2, 0),
            \* 7, 8: one static sampler object over a sampler whose draws differ; 9, 10: one non-static such sampler
            ConS(7, "pinn", 1, TRUE, "xt", <<2, 1, -1>>, "u_f", FALSE, 2, 0),
            ConS(8, "mean", 1, TRUE, "tx", <<1, -1, 2>>, "echofg", TRUE, 2, 0),
            ConS(9, "pinn", 2, FALSE, "xt", <<1, 2, 0>>, "u_f", FALSE, 1, 0),
            ConS(10, "pinn", 2, FALSE, "xt", <<-1, 1, 1>>, "echo", FALSE, 0, 0),
            \* 11, 12: ONE model object fed by samplers with different variable order
            [Con(11, "pinn", RowsB, FALSE, "xt", "xt", <<2, -3, 1>>, "echo", FALSE, 0, 0) EXCEPT !.mid = 1],
            [Con(12, "pinn", RowsA, FALSE, "tx", "xt", <<2, -3, 1>>, "echo", TRUE, 0, 0) EXCEPT !.mid = 1],
            \* 13, 14: one static sampler object that resamples every second use (make_static(resample_interval=2))
            ConS(13, "pinn", 3, TRUE, "xt", <<1, 1, 1>>, "u_f", FALSE, 1, 0),
            ConS(14, "pinn", 3, TRUE, "tx", <<2, 0, -1>>, "echofg", FALSE, 2, 0),
            \* 15 - 17: the third dictionary holds user-wrapped functions f(x, t = 0) with a DEFAULT for t; 15 samples (x, t) points, 16 and 17
            \* sample x only (their rows carry t = 0, the default) and use a model of x alone
            Con(15, "pinn", RowsA, FALSE, "xt", "xt", <<1, 2, -1>>, "u_f", FALSE, 3, 0),
            [Con(16, "pinn", <<<<2, 0>>, <<-1, 0>>, <<3, 0>>>>, FALSE, "xt", "xt", <<2, 0, 1>>, "u_f", FALSE, 3, 0) EXCEPT !.xonly = TRUE],
            [Con(17, "mean", <<<<1, 0>>, <<-2, 0>>>>, TRUE, "xt", "xt", <<-1, 0, 2>>, "u_f", TRUE, 3, 0) EXCEPT !.xonly = TRUE],
            \* 18: a condition built with track_gradients = False (no derivatives in its residual); 19, 20: residuals with derivatives
            [Con(18, "pinn", RowsB, FALSE, "xt", "xt", <<1, -1, 2>>, "echo", FALSE, 0, 0) EXCEPT !.track = FALSE],
            Con(19, "periodic", RowsA, FALSE, "xt", "xt", <<2, 1, -1>>, "per_d", FALSE, 0, 0),
            Con(20, "pinn", RowsC, FALSE, "tx", "xt", <<3, -2, 1>>, "ux_t", TRUE, 0, 0) >>
NC == 20
Init == built = {} /\ evs = [i \in 1..NC |-> 0] /\ hist = <<>>
Next == /\ Len(hist) < MaxOps
        /\ \/ \E i \in 1..NC : i \notin built /\ Cardinality(built) < 3 /\ built' = built \cup {i} /\ hist' = Append(hist, Cands[i]) /\ UNCHANGED evs
           \/ \E i \in built : evs[i] < 2 /\ evs' = [evs EXCEPT ![i] = @ + 1] /\ hist' = Append(hist, Ev(i)) /\ UNCHANGED built
           \/ built # {} /\ hist # <<>> /\ hist[Len(hist)].a # "mv" /\ hist' = Append(hist, Mv) /\ UNCHANGED <<built, evs>>
Spec == Init /\ [][Next]_<<built, evs, hist>>
Scenario == [dicts |-> <<[f |-> 1, g |-> 3], [f |-> 2, g |-> 1], [f |-> 3, g |-> 1]>>, ops |-> hist]
Emit == (Len(hist) = MaxOps /\ \A i \in built : evs[i] >= 1) => TLCSet(2, TLCGet(2) \cup {Scenario})
Post == ndJsonSerialize(IOEnv.OUT_FILE, SetToSeq(IF Mode = "single" THEN SingleOK ELSE TLCGet(2)))
        /\ PrintT(<<"SCENARIOS", Cardinality(IF Mode = "single" THEN SingleOK ELSE TLCGet(2))>>)
ASSUME TLCSet(2, {})
==========================================================================

----------------------------- MODULE Gen_C03 -----------------------------
(* Case generation for C03: polynomial programs (mixed monomials of degree <= 3, incl. programs that are constant or
   linear in a listed variable) x operators x every choice and order of derivative variable groups. *)
EXTENDS Poly, TLC, Json, IOUtils, SequencesExt, FiniteSets
CONSTANTS Big
E7(a, b, c, d) == <<a, b, c, d, 0, 0, 0>>
Monos == {E7(0,0,0,0), E7(1,0,0,0), E7(0,1,0,0), E7(0,0,1,0), E7(1,1,0,0), E7(2,0,0,0), E7(0,2,1,0), E7(1,0,1,0),
          E7(2,0,1,0), E7(0,1,2,0), E7(1,1,1,0), E7(3,0,0,0), E7(0,0,2,1), E7(1,0,0,2), E7(0,0,0,1), E7(0,3,0,0)}
T(c, e) == [c |-> c, e |-> e]
P1 == {<<T(c, m)>> : c \in {-2, 3}, m \in Monos}
P2 == {<<T(3, m1), T(-2, m2)>> : m1 \in Monos, m2 \in Monos} \cup {<<T(1, m1), T(1, m2), T(-2, E7(1,1,1,0))>> : m1 \in {E7(2,0,0,0), E7(0,0,2,1)}, m2 \in Monos}
Polys == IF Big THEN P1 \cup P2 ELSE P1 \cup {p \in P2 : p[1].e # p[2].e /\ (p[1].e[1] + p[2].e[2] + p[1].e[3]) % 3 = 0}
GroupSeqs == {<<"x">>, <<"t">>, <<"k">>, <<"x", "t">>, <<"t", "x">>, <<"x", "t", "k">>, <<"k", "x">>}
Rows == <<<<1, 2, -1, 3, 2, -1, 1>>, <<-2, 1, 2, -1, 0, 3, -2>>, <<3, -1, 1, 2, -1, 1, 2>>>>
Case(op, F, gs, aux) == [op |-> op, F |-> F, gs |-> gs, aux |-> aux, rows |-> Rows]
Y7(a, b, c) == <<0, 0, 0, 0, a, b, c>>
Vec2 == {<<p, q>> : p \in {<<T(1, E7(2,0,1,0))>>, <<T(3, E7(1,1,0,0)), T(-2, E7(0,0,1,0))>>, <<T(1, E7(0,0,1,0))>>}, q \in {<<T(-2, E7(0,2,1,0))>>, <<T(1, E7(1,0,0,0))>>, <<T(3, E7(1,1,1,0)), T(1, E7(0,3,0,0))>>}}
Vec3 == {<<p, q, r>> : p \in {<<T(1, E7(2,0,1,0))>>, <<T(3, E7(1,1,0,0))>>}, q \in {<<T(-2, E7(0,2,1,0))>>, <<T(1, E7(0,0,1,0))>>}, r \in {<<T(1, E7(1,0,2,0))>>, <<T(3, E7(0,0,0,0))>>, <<T(-2, E7(0,1,1,0))>>}}
VecY == {<<p, q, r>> : p \in {<<T(1, Y7(0,1,1))>>, <<T(3, Y7(2,0,0))>>}, q \in {<<T(-2, Y7(1,0,2))>>, <<T(1, Y7(0,0,1))>>}, r \in {<<T(1, Y7(1,1,0))>>, <<T(3, Y7(0,2,1))>>}}
Cases ==
    {Case("grad", <<p>>, gs, <<>>) : p \in Polys, gs \in GroupSeqs}
    \cup {Case("laplacian", <<p>>, gs, <<>>) : p \in Polys, gs \in GroupSeqs}
    \cup {Case("partial", <<p>>, gs, <<>>) : p \in Polys, gs \in {<<"t">>, <<"k">>, <<"t", "t">>, <<"t", "k">>, <<"k", "t", "t">>}}
    \cup {Case("normal_derivative", <<p>>, <<"x">>, <<<<T(1, E7(0,0,0,0))>>, <<T(-2, E7(0,0,0,0))>>>>) : p \in Polys}
    \cup {Case("div", F, <<"x">>, <<>>) : F \in Vec2} \cup {Case("div", F, gs, <<>>) : F \in Vec3, gs \in {<<"x", "t">>, <<"t", "x">>}}
    \cup {Case("jac", F, gs, <<>>) : F \in Vec2, gs \in {<<"x">>, <<"x", "t">>, <<"t", "x">>}} \cup {Case("jac", F, <<"x", "t">>, <<>>) : F \in Vec3}
    \cup {Case("convective", F, <<"x">>, V) : F \in Vec2, V \in Vec2}
    \cup {Case("sym_grad2", F, <<"x">>, <<>>) : F \in Vec2}
    \cup {Case("matrix_div", F \o G, <<"x">>, <<>>) : F \in Vec2, G \in Vec2}
    \cup {Case("rot", F, <<"y">>, <<>>) : F \in VecY}
    \* one-dimensional derivative variables (single-column matrices, one-component fields) and mixed column groups
    \cup {Case("matrix_div", F, <<"t">>, <<>>) : F \in Vec2 \cup Vec3}
    \cup {Case("matrix_div", F \o G, gs, <<>>) : F \in Vec3, G \in {<<p, q, r>> \in Vec3 : p # <<T(1, E7(2,0,1,0))>>}, gs \in {<<"x", "t">>, <<"t", "x">>}}
    \cup {Case("div", <<p>>, <<"t">>, <<>>) : p \in P1}
    \cup {Case("jac", F, gs, <<>>) : F \in Vec2, gs \in {<<"t">>, <<"k">>}}
\* three and more derivative variable groups (x, t, k: four columns) in every order that starts the second / third group at another offset
Vec4 == {<<p, q, r, w>> : <<p, q, r>> \in Vec3, w \in {<<T(1, E7(0,0,1,2))>>, <<T(-2, E7(1,0,0,1)), T(3, E7(0,0,0,3))>>}}
Cases3 == {Case("div", F, gs, <<>>) : F \in Vec4, gs \in {<<"x", "t", "k">>, <<"t", "k", "x">>, <<"k", "x", "t">>, <<"t", "x", "k">>}}
          \cup {Case("jac", F, gs, <<>>) : F \in Vec2, gs \in {<<"x", "t", "k">>, <<"k", "t", "x">>}}
          \cup {Case(op, F, <<"x">>, V) : op \in {"conv_grad", "conv_lap"}, F \in Vec2, V \in Vec2}            \* the field convected by itself, too
          \* symmetric gradients of three- and four-component fields (as many derivative coordinates as components)
          \cup {Case("sym_grad2", F, gs, <<>>) : F \in Vec3, gs \in {<<"x", "t">>, <<"t", "x">>}}
          \cup {Case("sym_grad2", F, gs, <<>>) : F \in Vec4, gs \in {<<"x", "t", "k">>, <<"k", "t", "x">>}}
          \cup {Case("jac", F, gs, <<>>) : F \in Vec4, gs \in {<<"x">>, <<"x", "t", "k">>, <<"t">>}}          \* four components
          \cup {Case("matrix_div", F \o G, gs, <<>>) : F \in Vec4, G \in {<<p, q, r, w>> \in Vec4 : p # <<T(1, E7(2,0,1,0))>>}, gs \in {<<"x", "t", "k">>, <<"k", "t", "x">>}}
ASSUME ndJsonSerialize(IOEnv.OUT_FILE, SetToSeq(Cases \cup Cases3)) /\ PrintT(<<"SCENARIOS", Cardinality(Cases \cup Cases3)>>)
==========================================================================

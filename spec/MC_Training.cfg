SPECIFICATION Spec
INVARIANT EvalOrder
INVARIANT LrOK
INVARIANT InBudget
PROPERTY LamAscends
CHECK_DEADLOCK FALSE

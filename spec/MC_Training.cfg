SPECIFICATION Spec
INVARIANT EvalOrder
INVARIANT LrOK
PROPERTY LamAscends
CHECK_DEADLOCK FALSE

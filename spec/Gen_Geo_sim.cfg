SPECIFICATION Spec
CONSTANTS Depth = 3 Mode = "sim"
CONSTRAINT Emit
POSTCONDITION Post
CHECK_DEADLOCK FALSE

------------------------------ MODULE DeepONet ------------------------------
(* DeepONet (models/deeponet/*.py, property C09) on OBSERVED integer features.
   Networks carry small integer weights and Identity / Square activations, inputs are integers, so every
   feature, output, input-derivative and parameter gradient is an exact integer.
     B[i][c][k]  branch features of function i (branch.current_out),  T[j][c][k]  trunk features of location j
     Out[i][j][c] output for function i at location j
   Laws:
     Contraction   Out[i][j][c] = SUM_k B[i][c][k] * T[j][c][k]
     Functional    B[i] depends only on WHICH function i is (same id => same features in every batch composition and
                   for every way of supplying the branch input); T[j] only on which location j is
     History       after fix_input(f) every forward uses f until the next fix_input; a forward with an explicit branch
                   input uses the CURRENT content of that input and the CURRENT weights, whatever was computed before for
                   the same object
     FastEqPlain   the shared-trunk-input layers and plain linear layers with the same weights give identical
                   outputs, first and second input derivatives and parameter gradients (also of losses that contain
                   input derivatives)                       *)
EXTENDS Integers, Sequences, FiniteSets
RECURSIVE SumS(_)
SumS(s) == IF s = <<>> THEN 0 ELSE Head(s) + SumS(Tail(s))
Dot(u, v) == SumS([k \in DOMAIN u |-> u[k] * v[k]])
Contraction(B, T, Out) ==
    /\ Len(Out) = Len(B)
    /\ \A i \in DOMAIN B : /\ Len(Out[i]) = Len(T)
                           /\ \A j \in DOMAIN T : /\ Len(Out[i][j]) = Len(B[i])
                                                  /\ \A c \in DOMAIN B[i] : Out[i][j][c] = Dot(B[i][c], T[j][c])
\* feature observations [id |-> ..., f |-> features]: equal id => equal features
FunctionalObs(obs) == \A a \in obs, b \in obs : a.id = b.id => a.f = b.f
=============================================================================

SPECIFICATION Spec
CONSTANTS Deep = TRUE Dev = {"params_repeat"}
INVARIANT AbsOK
INVARIANT LenOK
CHECK_DEADLOCK FALSE

---------------------------- MODULE Trace_C01 ----------------------------
(* Trace validation for C01: every row returned by a sampling call of the real code, paired with its parameter
   row, must lie in the denoted set (interior: closed set up to Tol; boundary: within Tol of the topological
   boundary), rows of filtered samplers satisfy the filter, and the call terminates. *)
EXTENDS Geometry, TLC, TLCExt, Json, IOUtils
Traces == JsonDeserialize(IOEnv.TRACE_FILE)
VARIABLES tid, verdict, dev, judged
Tol == 2
Q(p) == [val |-> p.val, w |-> p.w]
E(t) == t.scenario.expr
RowOK(t, c, r) == LET q == Q(r) IN
                  /\ IF t.scenario.boundary THEN NearBdTol(E(t), q, Tol) ELSE InTol(E(t), q, Tol)
                  /\ (c.filter = 1 => q.val[SpaceOf(E(t))[1][1]][1] >= -Tol)
\* lattice estimate of positive measure at parameter row prm (fine units).  2-D sets: >= 12 of the 15x15 lattice points of
\* the window inside (~5%).  Other spaces (intervals, balls, products): a lattice over all space variables, coarser per axis.
Lat == {-896 + 128 * i + 7 : i \in 0..14}
Lat2 == {-896 + 256 * i + 7 : i \in 0..7}
EnvQ(e, prm, x, y) == [val |-> [n \in FreeVars(e) \cup {"x"} |-> IF n = "x" THEN <<x, y>> ELSE IF n \in DOMAIN prm THEN <<prm[n]>> ELSE <<0>>], w |-> 1]
VarLat(dim, L) == IF dim = 1 THEN {<<a>> : a \in L} ELSE IF dim = 2 THEN {<<a, b>> : a \in L, b \in L} ELSE {<<a, b, c>> : a \in Lat2, b \in Lat2, c \in Lat2}
\* all lattice assignments of the space variables of e (one variable: fine lattice; several: the coarse one per variable)
LatPoints(e) == LET sp == SpaceOf(e)  L == IF Len(sp) = 1 THEN Lat ELSE Lat2
                IN {f \in [{sp[i][1] : i \in DOMAIN sp} -> UNION {VarLat(sp[i][2], L) : i \in DOMAIN sp}] : \A i \in DOMAIN sp : f[sp[i][1]] \in VarLat(sp[i][2], L)}
EnvG(e, prm, f) == [val |-> [n \in FreeVars(e) \cup DOMAIN f |-> IF n \in DOMAIN f THEN f[n] ELSE IF n \in DOMAIN prm THEN <<prm[n]>> ELSE <<0>>], w |-> 1]
MinInside(e) == LET sp == SpaceOf(e) IN IF Len(sp) = 1 /\ sp[1][2] = 1 THEN 2 ELSE IF Len(sp) = 1 /\ sp[1][2] = 3 THEN 8 ELSE 4
\* enough of the set, and (flt = 1: the filter  first coordinate of the first variable >= 0) at least a tenth of it passes the filter
Positive(e, prm, flt) ==
    IF SpaceOf(e) = <<<<"x", 2>>>> THEN Cardinality({p \in Lat \X Lat : (flt = 0 \/ p[1] >= 0) /\ In(e, EnvQ(e, prm, p[1], p[2]))}) >= 12
    ELSE LET ins == {f \in LatPoints(e) : In(e, EnvG(e, prm, f))}
             ok == {f \in ins : f[SpaceOf(e)[1][1]][1] >= 0}
         IN Cardinality(ins) >= MinInside(e) /\ (flt = 0 \/ (Cardinality(ok) >= 2 /\ Cardinality(ok) * 10 >= Cardinality(ins)))
RECURSIVE HasNode(_, _)
HasNode(e, kind) == e.k = kind \/ (e.k \in {"union", "cut", "and", "prod"} /\ (HasNode(e.l, kind) \/ HasNode(e.r, kind)))
                    \/ (e.k \in {"trans", "rot", "bd"} /\ HasNode(e.d, kind))
\* a call that exceeds the watchdog is judged "does not terminate" only where no rejection step of the expression is slow for a good
\* reason: an intersection / cut (at any depth) that keeps less than 1/20 of the lattice points of the operand it draws from, at some
\* parameter row of the call, needs hundreds of proposals per point -- finite, but not within the budget (an operand with NO lattice
\* point is the acknowledged deviation bool_empty_operand, see below)
LatCount(e, prm) == Cardinality({p \in Lat \X Lat : In(e, EnvQ(e, prm, p[1], p[2]))})
RECURSIVE SlowRejection(_, _)
SlowRejection(e, prm) ==
    CASE e.k \in {"cut", "and"} -> (SpaceOf(e) = <<<<"x", 2>>>> /\ LatCount(e, prm) >= 1 /\ LatCount(e, prm) * 20 < LatCount(e.l, prm))
                                    \/ SlowRejection(e.l, prm) \/ SlowRejection(e.r, prm)
      [] e.k = "union" -> SlowRejection(e.l, prm) \/ SlowRejection(e.r, prm)
      [] e.k \in {"trans", "rot"} -> SlowRejection(e.d, prm)
      [] OTHER -> FALSE
\* nesting depth of Boolean / motion nodes.  Membership of a polygon is a loop over the candidate points in the library, and every
\* rejection level multiplies the number of candidates: calls on polygons nested three and more levels deep run for tens of CPU
\* seconds (measured: 11 s for n = 4) -- finite, but beyond the watchdog, so exceeding the budget is not judged there
RECURSIVE Depth(_)
Depth(e) == CASE e.k \in {"union", "cut", "and", "prod"} -> 1 + (IF Depth(e.l) > Depth(e.r) THEN Depth(e.l) ELSE Depth(e.r))
              [] e.k \in {"trans", "rot", "bd"} -> 1 + Depth(e.d)
              [] OTHER -> 0
DeepPolygon(e) == HasNode(e, "poly") /\ Depth(e) >= 3
CallClause(t, c) ==
    IF c.exc = "skipped" THEN "ok"
    ELSE IF c.exc = "hang" /\ ~t.scenario.boundary /\ DeepPolygon(E(t)) THEN "ok"
    ELSE IF c.exc = "hang" /\ ~t.scenario.boundary /\ (\E r \in (IF c.prm = <<>> THEN {<<>>} ELSE {c.prm[i] : i \in DOMAIN c.prm}) : SlowRejection(E(t), r)) THEN "ok"
    ELSE IF c.exc = "hang" THEN "sampling-does-not-terminate"
    \* a filtered sampler gave up after 20 rounds without a point that passes the filter (documented): on BOUNDARIES the share that
    \* passes the filter is not established by the lattice test of Judgeable, and small n are allotted to the operands' boundaries
    \* deterministically (the sampling law is C11's subject), so the give-up is not judged there
    ELSE IF c.exc = "FilterGaveUp" /\ t.scenario.boundary THEN "ok"
    ELSE IF c.exc # "" THEN "sampling-failed:" \o c.exc
    ELSE IF \E i \in DOMAIN c.rows : ~RowOK(t, c, c.rows[i]) THEN
              (IF t.scenario.boundary THEN "boundary-sample-off-boundary" ELSE "sample-outside-domain")
    \* a call for n points per parameter row returns n points for every row of the batch (also with a filter)
    ELSE IF c.kind \in {"dom_random", "dom_grid", "s_random", "s_grid", "s_gauss", "s_lhs", "s_adaptive", "s_adaptive_r"} /\ c.n > 0
            /\ c.count # c.n * (IF c.k = 0 THEN 1 ELSE c.k) THEN "wrong-number-of-points"
    ELSE "ok"
\* a ball whose radius function is NEGATIVE at the parameter row: not a domain description (membership says empty, the
\* measure formulas say pi r^2 > 0): such rows are outside the input universe of the property, also inside a combination
RECURSIVE NegRadius(_, _)
NegRadius(e, prm) ==
    CASE e.k \in {"circle", "sphere"} -> Aff(e.r, EnvQ(e, prm, 0, 0)) < 0
      [] e.k \in {"union", "cut", "and", "prod"} -> NegRadius(e.l, prm) \/ NegRadius(e.r, prm)
      [] e.k \in {"trans", "rot", "bd"} -> NegRadius(e.d, prm)
      [] OTHER -> FALSE
\* a call is judged only if the expression has positive measure at every parameter row of the call
Judgeable(t, c) == IF c.prm = <<>> THEN Positive(E(t), <<>>, c.filter) /\ ~NegRadius(E(t), <<>>)
                   ELSE /\ \A i \in DOMAIN c.prm : Positive(E(t), c.prm[i], c.filter) /\ ~NegRadius(E(t), c.prm[i])
                        \* (adaptive samplers: also the parameter rows of the call in between are inside the universe)
                        /\ "prm2" \in DOMAIN c => \A i \in DOMAIN c.prm2 : ~NegRadius(E(t), c.prm2[i])
\* acknowledged deviations, identified by call site
\* "bool_bd_shared_piece": every offending boundary sample lies (within Tol) on the own boundaries of at least TWO
\* primitive operands, i.e. on a shared boundary piece that the Boolean boundary formulas keep although it is
\* interior to (or outside of) the result
SharedPiece(t, c) == t.scenario.boundary /\ c.exc = ""
                     /\ \A i \in DOMAIN c.rows : RowOK(t, c, c.rows[i]) \/ LeafBdCount(E(t), Q(c.rows[i]), 2 * Tol) >= 2
\* "bool_bd_empty_operand": boundary sampling of a Boolean combination alternates between the boundaries of BOTH
\* operands; if one operand is empty at the parameter row its boundary sampler never returns
RECURSIVE EmptyOperand(_, _)
EmptyOperand(e, prm) ==
    CASE e.k \in {"union", "cut", "and"} -> ~Positive(e.l, prm, 0) \/ ~Positive(e.r, prm, 0) \/ EmptyOperand(e.l, prm) \/ EmptyOperand(e.r, prm)
      [] e.k \in {"trans", "rot"} -> EmptyOperand(e.d, prm)
      [] OTHER -> FALSE
\* "bool_empty_operand": INTERIOR sampling of a Boolean combination samples every operand for every parameter row (union:
\* n points of A and of B, then a choice; cut / intersection: rejection from A); an operand (or nested operand) that contains
\* NO point of the 15x15 lattice at a parameter row of the call is never sampled successfully and the call does not return
NoLattice(e, prm) == SpaceOf(e) = <<<<"x", 2>>>> /\ \A p \in Lat \X Lat : ~In(e, EnvQ(e, prm, p[1], p[2]))
RECURSIVE EmptyOperand0(_, _)
EmptyOperand0(e, prm) ==
    CASE e.k \in {"union", "cut", "and"} -> NoLattice(e.l, prm) \/ NoLattice(e.r, prm) \/ EmptyOperand0(e.l, prm) \/ EmptyOperand0(e.r, prm)
      [] e.k \in {"trans", "rot"} -> EmptyOperand0(e.d, prm)
      [] OTHER -> FALSE
PrmRows(c) == IF c.prm = <<>> THEN {<<>>} ELSE {c.prm[i] : i \in DOMAIN c.prm}       \* a parameter-free call has one (empty) row
DevOfCall(t, c) ==
    IF c.kind = "s_lhs" /\ c.exc = "IndexError" /\ HasNode(E(t), "trans") THEN "translate_bbox_per_row"
    \* the same per-row box inside a product: ProductDomain.bounding_box concatenates it with the flat box of the other factor
    ELSE IF c.kind = "s_lhs" /\ c.exc = "RuntimeError" /\ HasNode(E(t), "prod") /\ HasNode(E(t), "trans")
            /\ "msg" \in DOMAIN c /\ c.msg = "Tensors must have same number of dimensions: got 1 and 2" THEN "translate_bbox_per_row"
    \* ... and inside a union / intersection, whose bounding_box compares the entries of the operands' boxes as scalars
    ELSE IF c.kind = "s_lhs" /\ c.exc = "RuntimeError" /\ (HasNode(E(t), "union") \/ HasNode(E(t), "and") \/ HasNode(E(t), "cut")) /\ HasNode(E(t), "trans")
            /\ "msg" \in DOMAIN c /\ c.msg = "Boolean value of Tensor with more than one value is ambiguous" THEN "translate_bbox_per_row"
    ELSE IF SharedPiece(t, c) THEN "bool_bd_shared_piece"
    ELSE IF t.scenario.boundary /\ c.exc = "hang" /\ \E r \in PrmRows(c) : EmptyOperand(E(t), r) THEN "bool_bd_empty_operand"
    ELSE IF ~t.scenario.boundary /\ c.exc = "hang" /\ \E r \in PrmRows(c) : EmptyOperand0(E(t), r) THEN "bool_empty_operand"
    ELSE ""
Check(t) ==
    IF "driver_error" \in DOMAIN t THEN <<"driver-error", "", 0>>
    ELSE LET pos == Judgeable(t, [prm |-> <<>>, filter |-> 0]) IN
    IF t.bd_exc # "" THEN (IF pos THEN <<"boundary-object-failed", "", 0>> ELSE <<"ok", "", 0>>)
    ELSE LET J == {i \in DOMAIN t.calls : Judgeable(t, t.calls[i])}
             bad == {i \in J : CallClause(t, t.calls[i]) # "ok"}
             un == {i \in bad : DevOfCall(t, t.calls[i]) = ""}            \* not explained by an acknowledged deviation
             nrows == Cardinality(J)
         IN IF bad = {} THEN <<"ok", "", nrows>>
            ELSE IF un = {} THEN LET i == CHOOSE i \in bad : TRUE IN
                 <<CallClause(t, t.calls[i]) \o "/" \o t.calls[i].kind, DevOfCall(t, t.calls[i]), nrows>>
            ELSE LET i == CHOOSE i \in un : \A j \in un : i <= j IN
                 <<CallClause(t, t.calls[i]) \o "/" \o t.calls[i].kind, "", nrows>>
Init == tid \in 1..Len(Traces) /\ LET r == Check(Traces[tid]) IN verdict = r[1] /\ dev = r[2] /\ judged = r[3]
Next == FALSE /\ UNCHANGED <<tid, verdict, dev, judged>>
Report == /\ TLCSet(1, TLCGet(1) \cup {tid})
          /\ TLCSet(5, TLCGet(5) + judged)
          /\ (verdict = "ok" \/ PrintT(<<"REJ", Traces[tid].tid, verdict, dev>>))
Post == PrintT(<<"VALIDATED", Cardinality(TLCGet(1))>>) /\ PrintT(<<"JUDGED", TLCGet(5)>>)
ASSUME TLCSet(1, {}) /\ TLCSet(5, 0)
==========================================================================

---------------------------- MODULE Trace_C01 ----------------------------
(* Trace validation for C01: every row returned by a sampling call of the real code, paired with its parameter
   row, must lie in the denoted set (interior: closed set up to Tol; boundary: within Tol of the topological
   boundary), rows of filtered samplers satisfy the filter, and the call terminates. *)
EXTENDS Geometry, TLC, TLCExt, Json, IOUtils
Traces == JsonDeserialize(IOEnv.TRACE_FILE)
VARIABLES tid, verdict, dev, judged
Tol == 2
Q(p) == [val |-> p.val, w |-> p.w]
E(t) == t.scenario.expr
RowOK(t, c, r) == LET q == Q(r) IN
                  /\ IF t.scenario.boundary THEN NearBdBox(E(t), q, Tol) ELSE InTol(E(t), q, Tol)
                  /\ (c.filter = 1 => q.val[SpaceOf(E(t))[1][1]][1] >= -Tol)
\* lattice estimate of positive measure at parameter row prm (fine units): >= 6 of 15x15 lattice points inside
Lat == {-896 + 128 * i + 7 : i \in 0..14}
EnvQ(e, prm, x, y) == [val |-> [n \in FreeVars(e) \cup {"x"} |-> IF n = "x" THEN <<x, y>> ELSE IF n \in DOMAIN prm THEN <<prm[n]>> ELSE <<0>>], w |-> 1]
\* (with a filter  x[1] >= 0  only the lattice points satisfying it count); 12 of 225 points ~ 5% of the window
Positive(e, prm, flt) == SpaceOf(e) # <<<<"x", 2>>>>
                         \/ Cardinality({p \in Lat \X Lat : (flt = 0 \/ p[1] >= 0) /\ In(e, EnvQ(e, prm, p[1], p[2]))}) >= 12
RECURSIVE HasNode(_, _)
HasNode(e, kind) == e.k = kind \/ (e.k \in {"union", "cut", "and", "prod"} /\ (HasNode(e.l, kind) \/ HasNode(e.r, kind)))
                    \/ (e.k \in {"trans", "rot", "bd"} /\ HasNode(e.d, kind))
CallClause(t, c) ==
    IF c.exc = "skipped" THEN "ok"
    ELSE IF c.exc = "hang" THEN "sampling-does-not-terminate"
    ELSE IF c.exc # "" THEN "sampling-failed:" \o c.exc
    ELSE IF \E i \in DOMAIN c.rows : ~RowOK(t, c, c.rows[i]) THEN
              (IF t.scenario.boundary THEN "boundary-sample-off-boundary" ELSE "sample-outside-domain")
    ELSE "ok"
\* a call is judged only if the expression has positive measure at every parameter row of the call
Judgeable(t, c) == IF c.prm = <<>> THEN Positive(E(t), <<>>, c.filter) ELSE \A i \in DOMAIN c.prm : Positive(E(t), c.prm[i], c.filter)
\* acknowledged deviations, identified by call site
\* "bool_bd_shared_piece": every offending boundary sample lies (within Tol) on the own boundaries of at least TWO
\* primitive operands, i.e. on a shared boundary piece that the Boolean boundary formulas keep although it is
\* interior to (or outside of) the result
SharedPiece(t, c) == t.scenario.boundary /\ c.exc = ""
                     /\ \A i \in DOMAIN c.rows : RowOK(t, c, c.rows[i]) \/ LeafBdCount(E(t), Q(c.rows[i]), 2 * Tol) >= 2
\* "bool_bd_empty_operand": boundary sampling of a Boolean combination alternates between the boundaries of BOTH
\* operands; if one operand is empty at the parameter row its boundary sampler never returns
RECURSIVE EmptyOperand(_, _)
EmptyOperand(e, prm) ==
    CASE e.k \in {"union", "cut", "and"} -> ~Positive(e.l, prm, 0) \/ ~Positive(e.r, prm, 0) \/ EmptyOperand(e.l, prm) \/ EmptyOperand(e.r, prm)
      [] e.k \in {"trans", "rot"} -> EmptyOperand(e.d, prm)
      [] OTHER -> FALSE
DevOfCall(t, c) ==
    IF c.kind = "s_lhs" /\ c.exc = "IndexError" /\ HasNode(E(t), "trans") THEN "translate_bbox_per_row"
    \* the same per-row box inside a product: ProductDomain.bounding_box concatenates it with the flat box of the other factor
    ELSE IF c.kind = "s_lhs" /\ c.exc = "RuntimeError" /\ E(t).k = "prod" /\ HasNode(E(t), "trans")
            /\ "msg" \in DOMAIN c /\ c.msg = "Tensors must have same number of dimensions: got 1 and 2" THEN "translate_bbox_per_row"
    ELSE IF SharedPiece(t, c) THEN "bool_bd_shared_piece"
    ELSE IF t.scenario.boundary /\ c.exc = "hang" /\ \E i \in DOMAIN c.prm : EmptyOperand(E(t), c.prm[i]) THEN "bool_bd_empty_operand"
    ELSE ""
Check(t) ==
    IF "driver_error" \in DOMAIN t THEN <<"driver-error", "", 0>>
    ELSE LET pos == Judgeable(t, [prm |-> <<>>, filter |-> 0]) IN
    IF t.bd_exc # "" THEN (IF pos THEN <<"boundary-object-failed", "", 0>> ELSE <<"ok", "", 0>>)
    ELSE LET J == {i \in DOMAIN t.calls : Judgeable(t, t.calls[i])}
             bad == {i \in J : CallClause(t, t.calls[i]) # "ok"}
             un == {i \in bad : DevOfCall(t, t.calls[i]) = ""}            \* not explained by an acknowledged deviation
             nrows == Cardinality(J)
         IN IF bad = {} THEN <<"ok", "", nrows>>
            ELSE IF un = {} THEN LET i == CHOOSE i \in bad : TRUE IN
                 <<CallClause(t, t.calls[i]) \o "/" \o t.calls[i].kind, DevOfCall(t, t.calls[i]), nrows>>
            ELSE LET i == CHOOSE i \in un : \A j \in un : i <= j IN
                 <<CallClause(t, t.calls[i]) \o "/" \o t.calls[i].kind, "", nrows>>
Init == tid \in 1..Len(Traces) /\ LET r == Check(Traces[tid]) IN verdict = r[1] /\ dev = r[2] /\ judged = r[3]
Next == FALSE /\ UNCHANGED <<tid, verdict, dev, judged>>
Report == /\ TLCSet(1, TLCGet(1) \cup {tid})
          /\ TLCSet(5, TLCGet(5) + judged)
          /\ (verdict = "ok" \/ PrintT(<<"REJ", Traces[tid].tid, verdict, dev>>))
Post == PrintT(<<"VALIDATED", Cardinality(TLCGet(1))>>) /\ PrintT(<<"JUDGED", TLCGet(5)>>)
ASSUME TLCSet(1, {}) /\ TLCSet(5, 0)
==========================================================================

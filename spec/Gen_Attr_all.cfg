SPECIFICATION Spec
CONSTANTS Depth = 0 Mode = "all"
POSTCONDITION PostA
CHECK_DEADLOCK FALSE



SPECIFICATION Spec
CONSTANTS Depth = 0 Mode = "vol"
POSTCONDITION PostA
CHECK_DEADLOCK FALSE

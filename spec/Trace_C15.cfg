INIT Init
NEXT Next
CONSTANTS Inf = 1000
CONSTRAINT Fin
POSTCONDITION Post
CHECK_DEADLOCK FALSE

----------------------------- MODULE Gen_C11 -----------------------------
(* Scenario generation for C11: which law, on which expression, with which partition. *)
EXTENDS Gen_Geo
Row == [t |-> 1, k |-> 2]
Base == [boundary |-> FALSE, row |-> Row, rows |-> <<>>, judge |-> 1, pre |-> <<>>, lo |-> -4, size |-> 1, den |-> 1, nb |-> 8, g |-> 8, d |-> 0,
         mean |-> <<>>, std |-> 0, mean4 |-> <<>>, lo4 |-> 0, dim |-> 2, blo4 |-> <<>>, blen4 |-> <<>>]
Sq == Par(V2(0, 0), V2(8, 0), V2(0, 8))
I1 == [k |-> "interval", v |-> "u", lo |-> A0(-4), hi |-> A0(6)]
Bool2 == {Un(Sq, Cir(V2(4, -2), A0(4))), Un(Cir(V2(0, 0), A0(6)), Tri(V2(-10, -4), V2(6, -8), V2(2, 10))),
          Cu(Cir(V2(0, 0), A0(6)), Sq), Cu(Par(V2(-8, -6), V2(4, -2), V2(-4, 6)), Cir(V2(4, -2), A0(4))),
          An(Cir(V2(0, 0), A0(6)), Tri(V2(-10, -4), V2(6, -8), V2(2, 10))), An(Sq, Cir(<<A1(-4, "t"), A0(0)>>, A1(2, "k")))}
Transf2 == {Tr(p, t) : p \in {Cir(V2(0, 0), A0(6)), Tri(V2(0, 0), V2(10, 0), V2(0, 8))}, t \in {V2(4, -2), <<A1(0, "t"), A0(2)>>}}
           \cup {Ro(p, m, V2(2, -4)) : p \in {Sq, Tri(V2(-10, -4), V2(6, -8), V2(2, 10))}, m \in {"r90", "p345", "p51213"}}
PolyB2 == {Un(Poly(<<RingL>>), Cir(V2(4, -2), A0(4))), Cu(Cir(V2(0, 0), A0(6)), Poly(<<RingL>>))}
\* (the 20-vertex spiral is expensive for the lattice masses: it is sampled uniformly with a coarser sub-lattice and on its outline only)
PolysS == {q \in Polys : Len(q.rings[1]) <= 6}
Spirals == Polys \ PolysS
U2 == Prims2 \cup Bool2 \cup Transf2 \cup PolysS \cup {Ro(Poly(<<RingL>>), "p345", V2(2, -4))}
Scen ==
    {[Base EXCEPT !.g = 16] @@ [expr |-> x, law |-> "uniform", N |-> 16384, log |-> "boxes", check |-> "uniform2"] : x \in U2}
    \* (membership of a polygon is a loop over the points: fewer points where a polygon filters the candidates of another shape)
    \cup {[Base EXCEPT !.g = 16] @@ [expr |-> x, law |-> "uniform", N |-> 4096, log |-> "boxes", check |-> "uniform2"] : x \in PolyB2}
    \cup {[Base EXCEPT !.g = 8] @@ [expr |-> x, law |-> "uniform", N |-> 16384, log |-> "boxes", check |-> "uniform2"] : x \in Spirals}
    \cup {[Base EXCEPT !.d = 2000, !.g = 16] @@ [expr |-> x, law |-> "uniform_d", N |-> 0, log |-> "boxes", check |-> "uniform2"] : x \in Bool2 \cup {Cir(V2(0, 0), A0(6)), Sq} \cup PolysS}
    \cup {[Base EXCEPT !.den = 4, !.nb = 32, !.g = 4, !.dim = 1] @@ [expr |-> x, law |-> "uniform", N |-> 4096, log |-> "boxes", check |-> "uniform1"] : x \in Ints}
    \cup {Base @@ [expr |-> x, law |-> "grid", N |-> 400, log |-> "boxes", check |-> "grid2"] : x \in {p \in Prims2 : TRUE} \cup Bool2 \cup PolysS}
    \cup {[Base EXCEPT !.lo = -1, !.den = 4, !.nb = 10, !.lo4 = -4, !.mean4 = <<1>>, !.mean = <<1>>, !.std = 2, !.dim = 1]
             @@ [expr |-> I1, law |-> "gauss", N |-> 16384, log |-> "boxes", check |-> "gauss"]}
    \cup {[Base EXCEPT !.lo = 0, !.den = 4, !.nb = 8, !.lo4 = 0, !.mean4 = <<4, 4>>, !.mean = <<4, 4>>, !.std = 2, !.dim = 2]
             @@ [expr |-> Sq, law |-> "gauss", N |-> 16384, log |-> "boxes", check |-> "gauss"]}
    \cup {[Base EXCEPT !.dim = 1, !.blo4 = <<-4>>, !.blen4 = <<10>>] @@ [expr |-> I1, law |-> "lhs", N |-> nn, log |-> "pts", check |-> "lhs"] : nn \in {7, 16}}
    \cup {[Base EXCEPT !.dim = 2, !.blo4 = <<0, 0>>, !.blen4 = <<8, 8>>] @@ [expr |-> Sq, law |-> "lhs", N |-> nn, log |-> "pts", check |-> "lhs"] : nn \in {5, 16}}
    \cup {[Base EXCEPT !.boundary = TRUE] @@ [expr |-> x, law |-> lw, N |-> 2048, log |-> "pts", check |-> IF x.k = "circle" THEN "circlebd" ELSE "polybd"]
             : x \in Prims2 \cup Polys \cup {Par(V2(-10, -2), V2(10, -2), V2(-10, 0)), Tri(V2(-10, -4), V2(10, -4), V2(-10, -2))}, lw \in {"uniform"}}
\* ---- batches of parameter rows (the points of row `judge` are judged at that row) and histories on one domain object
UnK == Un(Cir(V2(-5, 0), A1(2, "k")), Par(V2(6, -6), V2(12, -6), V2(6, 6)))        \* disjoint parts; the disc has radius 1/2 + k
Rows2 == <<[t |-> 1, k |-> 0], [t |-> 1, k |-> 2]>>
RowsT == <<[t |-> 0, k |-> 0], [t |-> 2, k |-> 0]>>
IT == [k |-> "interval", v |-> "u", lo |-> A1(-4, "t"), hi |-> A1(2, "t")]
Pre(lw, cnt) == [law |-> lw, N |-> cnt]
Scen2 ==
    {[Base EXCEPT !.g = 16, !.rows = Rows2, !.judge = j, !.row = Rows2[j]] @@ [expr |-> UnK, law |-> "uniform", N |-> 8192, log |-> "boxes", check |-> "uniform2"] : j \in 1..2}
    \cup {[Base EXCEPT !.dim = 1, !.blo4 = <<-4 + 4 * RowsT[j].t>>, !.blen4 = <<6>>, !.rows = RowsT, !.judge = j, !.row = RowsT[j]]
             @@ [expr |-> IT, law |-> "lhs", N |-> nn, log |-> "pts", check |-> "lhs"] : nn \in {7, 16}, j \in 1..2}
    \cup {[Base EXCEPT !.pre = <<Pre("grid", 1600)>>] @@ [expr |-> x, law |-> "grid", N |-> 400, log |-> "boxes", check |-> "grid2"]
             : x \in {Cir(V2(0, 0), A0(6)), Cu(Cir(V2(0, 0), A0(6)), Sq), An(Cir(V2(0, 0), A0(6)), Tri(V2(-10, -4), V2(6, -8), V2(2, 10))), Sq}}
    \cup {[Base EXCEPT !.g = 16, !.pre = <<Pre("uniform", 50), Pre("grid", 100)>>] @@ [expr |-> x, law |-> "uniform", N |-> 16384, log |-> "boxes", check |-> "uniform2"]
             : x \in {Cir(V2(0, 0), A0(6)), Un(Sq, Cir(V2(4, -2), A0(4)))}}
\* ---- the share of the points that falls into the FIRST operand of a union (overlapping operands): raw points are logged
Scen3 == {Base @@ [expr |-> x, law |-> "uniform", N |-> 8192, log |-> "pts", check |-> "share"] : x \in {y \in Bool2 \cup PolyB2 : y.k = "union"}}
         \cup {[Base EXCEPT !.rows = Rows2, !.judge = j, !.row = Rows2[j]] @@ [expr |-> UnK, law |-> "uniform", N |-> 4096, log |-> "pts", check |-> "share"] : j \in 1..2}
\* ---- more laws
\* non-equidistant interval grid: x_i = (i/(n+1))^2 resp. 1 - (i/(n+1))^2 (exponent 2 resp. 1/2; field std carries 2 / 1), scaled into the
\* interval of the point's own parameter row; first and second call of one sampler object; two parameter rows in one call
Scen4 ==
    {[Base EXCEPT !.dim = 1, !.std = ex, !.blo4 = <<-4 + 4 * RowsT[j].t>>, !.blen4 = <<6>>, !.rows = RowsT, !.judge = j, !.row = RowsT[j], !.pre = pr]
        @@ [expr |-> IT, law |-> "expint", N |-> 3, log |-> "pts", check |-> "expint"] : ex \in {1, 2}, j \in 1..2, pr \in {<<>>, <<Pre("expint", 3)>>}}
    \* boundary of a parallelogram whose aspect ratio depends on the parameter row (width 1 + k, height 1): share of every edge
    \cup {[Base EXCEPT !.boundary = TRUE, !.rows = Rows2, !.judge = j, !.row = Rows2[j]]
             @@ [expr |-> Par(V2(0, 0), <<A1(4, "k"), A0(0)>>, V2(0, 4)), law |-> "uniform", N |-> 2048, log |-> "pts", check |-> "polybd"] : j \in 1..2}
    \* a normal law whose mean lies two standard deviations outside the interval (2 % acceptance): still the conditioned normal law
    \cup {[Base EXCEPT !.lo = -1, !.den = 4, !.nb = 10, !.lo4 = -4, !.mean4 = <<-8>>, !.mean = <<-8>>, !.std = 2, !.dim = 1]
             @@ [expr |-> I1, law |-> "gauss", N |-> 4096, log |-> "boxes", check |-> "gauss"]}
\* ---- small grids on extreme shapes, accumulated over many calls on one object (d calls of std points each, N = d * std): a thin
\* strip of aspect ratio 20 / 10, a thin triangle, the L-shaped polygon; every 2 x 2 cell in which a single grid is expected to
\* put at least two points receives at least a quarter of its share
Scen5 == {[Base EXCEPT !.d = 60, !.std = nn, !.size = 2, !.nb = 4, !.g = 16] @@ [expr |-> x, law |-> "grid_acc", N |-> 60 * nn, log |-> "boxes", check |-> "gridacc"]
             : x \in {Par(V2(-10, -2), V2(10, -2), V2(-10, -1)), Par(V2(-2, -10), V2(0, -10), V2(-2, 10)), Tri(V2(-10, -4), V2(10, -4), V2(-10, -2)),
                      Poly(<<RingL>>), Cir(V2(0, 0), A0(6))}, nn \in {5, 12}}
\* ---- dependent products: the marginal law of the second factor's coordinate u is proportional to the measure of the first factor at u
\* (disc of radius 3/2 + u resp. a rectangle of width 2 + u; Boolean first factors only have a documented volume ESTIMATE and are left out), also after a tiny first call on the same object
Scen6 == {[Base EXCEPT !.den = 4, !.nb = 32, !.g = 4, !.dim = 1, !.pre = pr] @@ [expr |-> Pr(x, i), law |-> "uniform", N |-> 8192, log |-> "boxes", check |-> "depmarg", proj |-> "u"]
             : x \in {DepCirR, Par(V2(-8, -4), <<A1(0, "u"), A0(-4)>>, V2(-8, 4))},
               i \in {[k |-> "interval", v |-> "u", lo |-> A0(-4), hi |-> A0(6)]}, pr \in {<<>>, <<Pre("uniform", 2)>>}}
\* ... and a batch of two parameter rows whose discs differ in size by a factor of about four (radius 1/2 + u + k, k = 0 then k = 2)
DepCirK == Cir(V2(0, 0), [c |-> 2, k |-> [nm \in {"u", "k"} |-> 1]])
Scen7 == {[Base EXCEPT !.den = 4, !.nb = 32, !.g = 4, !.dim = 1, !.rows = Rows2, !.judge = j, !.row = Rows2[j]]
             @@ [expr |-> Pr(DepCirK, [k |-> "interval", v |-> "u", lo |-> A0(0), hi |-> A0(4)]), law |-> "uniform", N |-> 8192, log |-> "boxes", check |-> "depmarg", proj |-> "u"] : j \in 1..2}
\* ---- a cut whose removed disc moves and grows with the parameter row, sampled for two rows in one call (every row has its own points)
CutK == Cu(Par(V2(-8, -8), V2(8, -8), V2(-8, 8)), Cir(<<A1(-4, "t"), A0(0)>>, A1(2, "k")))
Scen8 == {[Base EXCEPT !.g = 16, !.rows = Rows2, !.judge = j, !.row = Rows2[j]] @@ [expr |-> CutK, law |-> "uniform", N |-> 4096, log |-> "boxes", check |-> "uniform2"] : j \in 1..2}
\* ---- the two end points of an interval as a boundary: half of the points at either end, also when they are drawn one or three at a time
\* (d calls of std points each on one object; a product samples its first factor one point per row)
Scen9 == {[Base EXCEPT !.boundary = TRUE, !.d = 600, !.std = nn, !.den = 4, !.nb = 32, !.dim = 1] @@ [expr |-> I1, law |-> "uniform_acc", N |-> 600 * nn, log |-> "boxes", check |-> "endpoints"] : nn \in {1, 3}}
ASSUME ndJsonSerialize(IOEnv.OUT_FILE, SetToSeq(Scen \cup Scen2 \cup Scen3 \cup Scen4 \cup Scen5 \cup Scen6 \cup Scen7 \cup Scen8 \cup Scen9)) /\ PrintT(<<"SCENARIOS", Cardinality(Scen \cup Scen2 \cup Scen3 \cup Scen4 \cup Scen5 \cup Scen6 \cup Scen7 \cup Scen8 \cup Scen9)>>)
==========================================================================

---------------------------- MODULE Trace_C07 ----------------------------
(* Trace validation for C07: the log of a real Solver / Trainer run (which condition was evaluated with which iteration
   index; every learnable tensor and the learning rate after every training batch and around validation, as exact
   rationals) is stepped against the reference optimisation loop of Training.tla.                             *)
EXTENDS Training, TLC, TLCExt, Json, IOUtils, FiniteSets
Traces == JsonDeserialize(IOEnv.TRACE_FILE)
VARIABLES tid, l, verdict, ref, done
vars == <<tid, l, verdict, ref, done>>
T == Traces[tid]
Cfg == T.scenario.cfg
Ev == T.log
Bad(c) == IF verdict = "ok" THEN c \o "@" \o ToString(l) ELSE verdict
Q(p) == <<p[1], p[2]>>
SameLearn(st, r) == /\ Q(st.a) = r.a /\ Q(st.b) = r.b /\ Q(st.kap) = r.kap
                    /\ Len(st.lam) = (IF HasKind(Cfg.train, "adapt") THEN Len(r.lam) ELSE 0)
                    /\ \A i \in DOMAIN st.lam : Q(st.lam[i]) = r.lam[i]
SameLr(st, r) == Q(st.lr) = r.lr
Init == /\ tid \in 1..Len(Traces) /\ l = 1 /\ ref = Init0(Traces[tid].scenario.cfg) /\ done = 0
        /\ verdict = (IF "driver_error" \in DOMAIN Traces[tid] THEN "driver-error" ELSE IF Traces[tid].exc # "" THEN "training-failed:" \o Traces[tid].exc ELSE "ok")
Step1 == /\ l <= Len(Ev) /\ l' = l + 1 /\ tid' = tid
         /\ LET e == Ev[l] IN
            CASE e.e = "cond" /\ e.c < 100 ->
                   /\ UNCHANGED ref
                   /\ done' = done + 1
                   /\ verdict' = (IF e.c # done + 1 THEN Bad("training-condition-order-or-repetition")
                                  ELSE IF e.it # ref.k THEN Bad("iteration-index") ELSE verdict)
              [] e.e = "cond" /\ e.c >= 100 -> UNCHANGED <<ref, done, verdict>>
              [] e.e = "step" ->
                   LET r2 == Step(Cfg, ref) IN
                   /\ ref' = r2 /\ done' = 0
                   /\ verdict' = (IF done # Len(Cfg.train) THEN Bad("not-every-training-condition-evaluated-once")
                                  ELSE IF ~SameLearn(e.st, r2) THEN Bad("learnable-state-differs-from-reference-loop")
                                  ELSE IF ~SameLr(e.st, r2) THEN Bad("learning-rate-schedule") ELSE verdict)
              [] e.e = "refit" ->          \* the same Solver is fitted again by a fresh Trainer
                   /\ ref' = Restart(Cfg, ref) /\ done' = 0
                   /\ verdict' = (IF ref.k # Cfg.N THEN Bad("number-of-optimizer-steps(first fit)") ELSE verdict)
              [] e.e \in {"val_start", "val_end"} ->
                   /\ UNCHANGED <<ref, done>>
                   /\ verdict' = (IF ~SameLearn(e.st, ref) THEN Bad("validation-changed-learnable-state") ELSE verdict)
              [] OTHER -> UNCHANGED <<ref, done, verdict>>
Next == Step1
Fin == (l = Len(Ev) + 1) =>
          /\ TLCSet(1, TLCGet(1) \cup {tid})
          /\ LET v == IF verdict = "ok" /\ ref.k # Cfg.N THEN "number-of-optimizer-steps" ELSE verdict IN
             (v = "ok" \/ PrintT(<<"REJ", T.tid, v, "">>))
Post == PrintT(<<"VALIDATED", Cardinality(TLCGet(1))>>)
ASSUME TLCSet(1, {})
==========================================================================

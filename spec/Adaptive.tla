------------------------------ MODULE Adaptive ------------------------------
(* Property C15, adaptive part (samplers/random_samplers.py: AdaptiveThresholdRejectionSampler,
   AdaptiveRandomRejectionSampler).  Points are ids; id 0 is never used; a FRESH point is an id not
   returned before (ids are allocated increasingly, so fresh <=> id > hi).
   Abs state:  last = sequence of ids returned by the previous call (<<>> before the first call),
               hi = largest id handed out so far.
   Losses are integers, the ratio is num/den, so the threshold test is exact.                        *)
EXTENDS Integers, Sequences, FiniteSets
RECURSIVE SMax(_), SMin(_)
SMax(s) == IF Len(s) = 1 THEN s[1] ELSE LET m == SMax(Tail(s)) IN IF s[1] > m THEN s[1] ELSE m
SMin(s) == IF Len(s) = 1 THEN s[1] ELSE LET m == SMin(Tail(s)) IN IF s[1] < m THEN s[1] ELSE m
Range(s) == {s[i] : i \in DOMAIN s}

\* rows whose previous loss is at or above  min + ratio * (max - min)
KeepRows(loss, num, den) ==
    LET mx == SMax(loss)  mn == SMin(loss)
    IN {i \in DOMAIN loss : loss[i] * den >= mn * den + (mx - mn) * num}

\* Abs: what one call may return.  loss = <<>> encodes "no loss given"
AllFresh(ret, hi) == \A i \in DOMAIN ret : ret[i] > hi
Distinct(s) == \A i, j \in DOMAIN s : i # j => s[i] # s[j]
SampleOK(last, hi, loss, num, den, n, ret) ==
    IF last = <<>> \/ loss = <<>>
    THEN Len(ret) = n /\ AllFresh(ret, hi) /\ Distinct(ret)
    ELSE /\ Len(ret) = Len(last)                                   \* the number of points is constant
         /\ Len(loss) = Len(last)
         /\ Distinct(ret)
         /\ LET kept == {last[i] : i \in KeepRows(loss, num, den)}
            IN /\ kept \subseteq Range(ret)                         \* exactly the points at or above the threshold stay
               /\ \A j \in DOMAIN ret : ret[j] \in kept \/ ret[j] > hi   \* all others are fresh
\* which clause fails (for diagnostics)
SampleClause(last, hi, loss, num, den, n, ret) ==
    IF last = <<>> \/ loss = <<>>
    THEN IF Len(ret) # n THEN "count" ELSE IF ~AllFresh(ret, hi) THEN "first-call-not-fresh" ELSE "ok"
    ELSE IF Len(ret) # Len(last) THEN "count"
    ELSE LET kept == {last[i] : i \in KeepRows(loss, num, den)} IN
         IF ~(kept \subseteq Range(ret)) THEN "kept-point-lost"
         ELSE IF ~(\A j \in DOMAIN ret : ret[j] \in kept \/ ret[j] > hi) THEN "below-threshold-point-kept"
         ELSE IF ~Distinct(ret) THEN "duplicate"
         ELSE "ok"

\* Impl: the code's in-place replacement by position.  Deviations:
\*   "ad_le"        loss <= threshold is replaced (ties dropped)
\*   "ad_max_only"  threshold = ratio * max
\*   "ad_high"      the HIGH-loss rows are replaced
\*   "ad_newonly"   the fresh sample is returned instead of the merged set
ImplSample(last, hi, loss, num, den, n, dev) ==
    LET fresh == [i \in 1..n |-> hi + i] IN
    IF last = <<>> \/ loss = <<>> THEN fresh
    ELSE LET mx == SMax(loss)  mn == SMin(loss)
             thrN == IF "ad_max_only" \in dev THEN mx * num ELSE mn * den + (mx - mn) * num
             repl(i) == IF "ad_le" \in dev THEN loss[i] * den <= thrN
                        ELSE IF "ad_high" \in dev THEN loss[i] * den >= thrN
                        ELSE loss[i] * den < thrN
         IN IF "ad_newonly" \in dev THEN fresh
            ELSE [i \in 1..Len(last) |-> IF repl(i) THEN fresh[i] ELSE last[i]]

\* integer square root and the binomial acceptance interval for the random variant
RECURSIVE ISqrtR(_, _)
ISqrtR(n, r) == IF r * r <= n /\ (r + 1) * (r + 1) > n THEN r ELSE ISqrtR(n, IF r * r > n THEN r - 1 ELSE r + 1)
ISqrt(n) == IF n <= 0 THEN 0 ELSE ISqrtR(n, 1)
\* count successes k out of R with probability pn/pd:  |k*pd - R*pn| <= z * sqrt(R*pn*(pd-pn)) + pd
BinomOK(k, R, pn, pd, z) ==
    LET dev == IF k * pd >= R * pn THEN k * pd - R * pn ELSE R * pn - k * pd
    IN IF pn = 0 THEN k <= 1 ELSE IF pn = pd THEN k >= R - 1
       ELSE dev <= z * (ISqrt(R * pn * (pd - pn)) + 1) + pd
=============================================================================

SPECIFICATION Spec
CONSTANTS Deep = TRUE Dev = {}
INVARIANT AbsOK
INVARIANT LenOK
CHECK_DEADLOCK FALSE

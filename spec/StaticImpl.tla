----------------------------- MODULE StaticImpl -----------------------------
(* samplers/sampler_base.py: StaticSampler, line by line.
     counter, created_points (cache: id of the stored set, 0 = None), resample_interval.
   Ghost variables uses / ruses (consecutive uses of the cached set since the draw / since the last
   make_static) exist only to state the refinement mapping to StaticAbs.
   Named deviations (constant Dev), for binding demonstrations and regression explanation:
     "static_le"          counter <= interval   (one use too many)
     "static_reset_one"   counter reset to 1 after a draw (one use too few)
     "static_keep_cache"  cache not replaced on expiry                                         *)
EXTENDS Integers
CONSTANTS Inf, Dev
VARIABLES interval, counter, cache, nfresh, ret, uses, ruses
ivars == <<interval, counter, cache, nfresh, ret, uses, ruses>>

IInit(iv) == interval = iv /\ counter = 0 /\ cache = 0 /\ nfresh = 0 /\ ret = 0 /\ uses = 0 /\ ruses = 0

Within(c) == IF "static_le" \in Dev THEN c <= interval ELSE c < interval

\* sample_points()
Call == LET c == counter + 1 IN
        IF cache # 0 /\ Within(c)
        THEN /\ ret' = cache /\ counter' = c /\ uses' = uses + 1 /\ ruses' = ruses + 1
             /\ UNCHANGED <<interval, cache, nfresh>>
        ELSE /\ counter' = (IF "static_reset_one" \in Dev THEN 1 ELSE 0)
             /\ nfresh' = nfresh + 1
             /\ cache' = (IF "static_keep_cache" \in Dev /\ cache # 0 THEN cache ELSE nfresh + 1)
             /\ ret' = nfresh + 1
             /\ uses' = 1 /\ ruses' = 1
             /\ UNCHANGED interval
\* __next__()
NextCall == IF cache # 0
            THEN ret' = cache /\ UNCHANGED <<interval, counter, cache, nfresh, uses, ruses>>
            ELSE Call
\* make_static(iv) on a StaticSampler: only the interval changes, the counter is deliberately kept
Restatic(iv) == interval' = iv /\ ruses' = 0 /\ UNCHANGED <<counter, cache, nfresh, ret, uses>>
=============================================================================

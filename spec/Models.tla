------------------------------- MODULE Models -------------------------------
(* Models as ROW-WISE FUNCTIONS OF NAMED VARIABLES (models/*.py, property C08).
   Model AST:  leaf(kind, ins, out)  |  seq(ms)  |  par(ms)        (ins / out: sequences of <<name, dim>>)
   An observation is one output row together with the id of the named input row it was computed from.
   Laws (on observations, whatever the architecture or the weights):
     Functional   equal named input content  =>  equal output (within Tol), across variable orders, row orders,
                  batch compositions and batch-axis arrangements;
     Rejects      a presentation lacking a required variable is rejected;
     Spaces       input / output spaces as derived from the AST (Sequential: first input, last output;
                  Parallel: union of inputs in first-occurrence order, outputs in declaration order);
     Seq          whole = last part applied to ... the first part's output (on the observed parts);
     Par          whole = join of the parts, each evaluated on its own input variables.                      *)
EXTENDS Integers, Sequences, FiniteSets
Names(sp) == [i \in DOMAIN sp |-> sp[i][1]]
Has(sp, n) == \E i \in DOMAIN sp : sp[i][1] = n
RECURSIVE AddNew(_, _)
AddNew(a, b) == IF b = <<>> THEN a ELSE AddNew(IF Has(a, Head(b)[1]) THEN a ELSE Append(a, Head(b)), Tail(b))
RECURSIVE InSpace(_), OutSpace(_), ParIn(_), ParOut(_), ParInOrdered(_)
ParIn(ms) == IF ms = <<>> THEN <<>> ELSE AddNew(InSpace(Head(ms)), ParIn(Tail(ms)))      \* (first occurrence order)
ParOut(ms) == IF ms = <<>> THEN <<>> ELSE OutSpace(Head(ms)) \o ParOut(Tail(ms))
InSpace(m) == CASE m.k = "leaf" -> m.ins [] m.k = "seq" -> InSpace(m.ms[1]) [] m.k = "par" -> ParInOrdered(m.ms)
OutSpace(m) == CASE m.k = "leaf" -> m.out [] m.k = "seq" -> OutSpace(m.ms[Len(m.ms)]) [] m.k = "par" -> ParOut(m.ms)
\* Parallel.__init__ builds the input space left to right
ParInOrdered(ms) == IF ms = <<>> THEN <<>> ELSE LET rest == ParInOrdered(SubSeq(ms, 1, Len(ms) - 1)) IN AddNew(rest, InSpace(ms[Len(ms)]))
AbsD(a, b) == IF a > b THEN a - b ELSE b - a
\* absolute tolerance for outputs of order 1..10, plus a relative part (2^-16) for large outputs: float32 carries 24 bits
Close(u, v, tol) == Len(u) = Len(v) /\ \A i \in DOMAIN u : AbsD(u[i], v[i]) <= tol + ((IF u[i] < 0 THEN -u[i] ELSE u[i]) \div 65536)
\* obs: sequence of [rid |-> row id, out |-> Seq(Int)]
Functional(obs, tol) == \A i, j \in DOMAIN obs : obs[i].rid = obs[j].rid => Close(obs[i].out, obs[j].out, tol)
=============================================================================

-------------------------------- MODULE Poly --------------------------------
(* Polynomial calculus over named input groups (property C03: "differential operators equal the analytic
   derivatives").  A polynomial is a sequence of terms [c |-> Int, e |-> <<e1..eNV>>] over the flattened scalar
   inputs; the operators of utils/differentialoperators.py are defined by term rewriting and evaluated at integer
   points.  Groups:  x = (s1, s2), t = (s3), k = (s4), y = (s5, s6, s7).                                   *)
EXTENDS Integers, Sequences
NV == 7
GIdx == [x |-> <<1, 2>>, t |-> <<3>>, k |-> <<4>>, y |-> <<5, 6, 7>>]
RECURSIVE FlatG(_)
FlatG(gs) == IF gs = <<>> THEN <<>> ELSE GIdx[Head(gs)] \o FlatG(Tail(gs))
RECURSIVE Pow(_, _)
Pow(b, n) == IF n = 0 THEN 1 ELSE b * Pow(b, n - 1)
RECURSIVE TermVal(_, _, _)
TermVal(e, pt, i) == IF i > NV THEN 1 ELSE Pow(pt[i], e[i]) * TermVal(e, pt, i + 1)
RECURSIVE Eval(_, _)
Eval(p, pt) == IF p = <<>> THEN 0 ELSE Head(p).c * TermVal(Head(p).e, pt, 1) + Eval(Tail(p), pt)
\* d/ds_i
RECURSIVE D(_, _)
D(p, i) == IF p = <<>> THEN <<>>
           ELSE LET h == Head(p) IN
                (IF h.e[i] = 0 THEN <<>> ELSE <<[c |-> h.c * h.e[i], e |-> [h.e EXCEPT ![i] = @ - 1]]>>) \o D(Tail(p), i)
RECURSIVE DSeq(_, _)
DSeq(p, is) == IF is = <<>> THEN p ELSE DSeq(D(p, Head(is)), Tail(is))
RECURSIVE SumS(_)
SumS(s) == IF s = <<>> THEN 0 ELSE Head(s) + SumS(Tail(s))
RECURSIVE FlattenS(_)
FlattenS(ss) == IF ss = <<>> THEN <<>> ELSE Head(ss) \o FlattenS(Tail(ss))

\* product of polynomials (term by term; like terms are not merged: Eval adds them up)
PMulT(t, q) == [k \in DOMAIN q |-> [c |-> t.c * q[k].c, e |-> [i \in 1..NV |-> t.e[i] + q[k].e[i]]]]
RECURSIVE PMul(_, _)
PMul(p, q) == IF p = <<>> THEN <<>> ELSE PMulT(Head(p), q) \o PMul(Tail(p), q)
\* component i of the convective term (V . nabla) F as a polynomial:  SUM_j  V_j * dF_i/ds_j
RECURSIVE ConvPoly(_, _, _, _)
ConvPoly(Fi, V, J, j) == IF j > Len(J) THEN <<>> ELSE PMul(D(Fi, J[j]), V[j]) \o ConvPoly(Fi, V, J, j + 1)
\* expected result row (flattened) of operator op at point pt.
\*   F : sequence of polynomials (components), gs : sequence of group names, aux : sequence of polynomials or ints
Expected(op, F, gs, aux, pt) ==
  LET J == FlatG(gs) IN
  CASE op = "grad" -> [j \in DOMAIN J |-> Eval(D(F[1], J[j]), pt)]
    [] op = "laplacian" -> <<SumS([j \in DOMAIN J |-> Eval(D(D(F[1], J[j]), J[j]), pt)])>>
    [] op = "div" -> <<SumS([j \in DOMAIN J |-> Eval(D(F[j], J[j]), pt)])>>
    [] op = "jac" -> FlattenS([i \in DOMAIN F |-> [j \in DOMAIN J |-> Eval(D(F[i], J[j]), pt)]])
    [] op = "partial" -> <<Eval(DSeq(F[1], J), pt)>>
    [] op = "normal_derivative" -> <<SumS([j \in DOMAIN J |-> Eval(D(F[1], J[j]), pt) * Eval(aux[j], pt)])>>
    [] op = "convective" -> [i \in DOMAIN F |-> SumS([j \in DOMAIN J |-> Eval(D(F[i], J[j]), pt) * Eval(aux[j], pt)])]
    \* an operator applied to the RESULT of another one: gradient / Laplacian of the first component of the convective term
    [] op = "conv_grad" -> LET C1 == ConvPoly(F[1], aux, J, 1) IN [j \in DOMAIN J |-> Eval(D(C1, J[j]), pt)]
    [] op = "conv_lap" -> LET C1 == ConvPoly(F[1], aux, J, 1) IN <<SumS([j \in DOMAIN J |-> Eval(D(D(C1, J[j]), J[j]), pt)])>>
    [] op = "sym_grad2" -> FlattenS([i \in DOMAIN F |-> [j \in DOMAIN J |-> Eval(D(F[i], J[j]), pt) + Eval(D(F[j], J[i]), pt)]])   \* 2 * sym_grad
    [] op = "matrix_div" -> LET n == Len(J)  m == Len(F) \div n IN            \* F = rows of an m x n matrix, row major
                            [i \in 1..m |-> SumS([j \in 1..n |-> Eval(D(F[(i - 1) * n + j], J[j]), pt)])]
    [] op = "rot" -> << Eval(D(F[3], J[2]), pt) - Eval(D(F[2], J[3]), pt),
                        Eval(D(F[1], J[3]), pt) - Eval(D(F[3], J[1]), pt),
                        Eval(D(F[2], J[1]), pt) - Eval(D(F[1], J[2]), pt) >>
=============================================================================

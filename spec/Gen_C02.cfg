CONSTANTS Deep = TRUE

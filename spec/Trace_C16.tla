---------------------------- MODULE Trace_C16 ----------------------------
(* Batch trace validation for C16.  Every trace is one pass over a REAL loader
   (ids presented per batch) plus, for points loaders, DataCondition losses.
   TLC evaluates the Abs clauses of DataLoaders.tla on what was observed; a trace that
   fails Abs is then compared with the Impl model under the acknowledged deviations:
   if the observation is exactly (up to the shuffle permutation) what the deviation
   produces, the rejection is tagged with the deviation's name. *)
EXTENDS DataLoaders, Json, IOUtils, TLCExt
Traces == JsonDeserialize(IOEnv.TRACE_FILE)
VARIABLES tid, verdict
vars == <<tid, verdict>>

Has(r, f) == f \in DOMAIN r
Sc(t) == t.scenario

\* ---------- points loaders
PD_Ep(t) == [i \in DOMAIN t.batches |-> t.batches[i].br]
PD_Pair(t) == \A i \in DOMAIN t.batches :
                 LET b == t.batches[i] IN
                 /\ Len(b.tgt) = Len(b.br)
                 /\ \A k \in DOMAIN b.br : b.br[k] \in 0..(Sc(t).Nb - 1) /\ b.tgt[k] = b.br[k] + Sc(t).d[b.br[k] + 1]
                 /\ b.shape_ok /\ b.spaces_ok
\* errors |model - target| per presented batch: identity model, target = x + d  =>  a = |d|
Abs_(x) == IF x < 0 THEN -x ELSE x
PD_Vals(t) == [i \in DOMAIN t.batches |-> [k \in DOMAIN t.batches[i].br |-> Abs_(Sc(t).d[t.batches[i].br[k] + 1])]]
AggExpected(t, a) == IF a.norm = 0 THEN AggInf(PD_Vals(t)) ELSE AggMean(PD_Vals(t), a.norm)
BatchExpected(t, a, k) == LET v == <<PD_Vals(t)[k]>> IN IF a.norm = 0 THEN AggInf(v) ELSE AggMean(v, a.norm)
\* observed loss^root (a rational <<num,den>>) against the expectation
AggOK(t) == ~Has(t, "agg") \/ \A i \in DOMAIN t.agg :
              LET a == t.agg[i] IN
              IF a.full
              THEN Len(a.obs) = 1 /\ RatEq(a.obs[1], AggExpected(t, a))
              ELSE /\ \A k \in DOMAIN a.obs :          \* single-iteration mode walks the batches cyclically
                         RatEq(a.obs[k], BatchExpected(t, a, ((k - 1) % Len(t.batches)) + 1))
                   /\ \A k \in DOMAIN a.obs_b :        \* ... and so does a second condition on the same loader, on its own
                         RatEq(a.obs_b[k], BatchExpected(t, a, ((k - 1) % Len(t.batches)) + 1))

\* after the data set's batch size was changed, the SAME condition aggregates the batches presented now
PD_Vals2(t) == [i \in DOMAIN t.batches2 |-> [k \in DOMAIN t.batches2[i].br |-> Abs_(Sc(t).d[t.batches2[i].br[k] + 1])]]
Agg2OK(t) == ~Has(t, "batches2") \/ \A i \in DOMAIN t.agg :
               LET a == t.agg[i] IN
               a.obs2 = <<>> \/ RatEq(a.obs2[1], IF a.norm = 0 THEN AggInf(PD_Vals2(t)) ELSE AggMean(PD_Vals2(t), a.norm))
PD_Check(t) ==
    LET s == Sc(t)  ep == PD_Ep(t) IN
    IF ~PD_Pair(t) THEN "PairOK"
    ELSE IF ~PD_SizeOK(ep, s.bb) THEN "SizeOK"
    ELSE IF ~(PD_CoverOK(ep, s.Nb, s.bb, s.drop) /\ PD_DropOK(ep, s.bb, s.drop)) THEN "CoverOK"
    ELSE IF t.len # Len(ep) THEN "LenOK"
    ELSE IF Len(ep) > 0 /\ ~AggOK(t) THEN "AggOK"
    ELSE IF Len(ep) > 0 /\ ~Agg2OK(t) THEN "AggOK-after-rebatching"
    ELSE "ok"

\* ---------- DeepONet loaders
DO_Ep(t) == [i \in DOMAIN t.batches |-> [br |-> t.batches[i].br, tr |-> t.batches[i].tr]]
DO_Pair(t) == \A i \in DOMAIN t.batches :
    LET b == t.batches[i] IN
    /\ b.const_ok /\ b.spaces_ok
    /\ Len(b.out) = Len(b.br)
    /\ \A a \in DOMAIN b.br :
         /\ Len(b.out[a]) = Len(b.tr)
         /\ \A c \in DOMAIN b.tr : b.out[a][c] = <<b.br[a], b.tr[c]>>
    /\ Sc(t).kind = "unique" =>
         /\ Len(b.trk) = Len(b.br)
         /\ \A a \in DOMAIN b.br : /\ Len(b.trk[a]) = Len(b.tr)
                                   /\ \A c \in DOMAIN b.tr : b.trk[a][c] = <<b.br[a], b.tr[c]>>
    /\ \A a \in DOMAIN b.br : b.br[a] \in 0..(Sc(t).Nb - 1)
    /\ \A c \in DOMAIN b.tr : b.tr[c] \in 0..(Sc(t).Nt - 1)

\* observed epoch equals the Impl epoch up to a renaming of ids (the shuffle permutation)
SameUpToRenaming(ep, im) ==
    /\ Len(ep) = Len(im)
    /\ \A k \in DOMAIN ep : Len(ep[k].br) = Len(im[k].br) /\ Len(ep[k].tr) = Len(im[k].tr)
    /\ \A k1, k2 \in DOMAIN ep :
         /\ \A p1 \in DOMAIN ep[k1].br, p2 \in DOMAIN ep[k2].br :
               (ep[k1].br[p1] = ep[k2].br[p2]) <=> (im[k1].br[p1] = im[k2].br[p2])
         /\ \A p1 \in DOMAIN ep[k1].tr, p2 \in DOMAIN ep[k2].tr :
               (ep[k1].tr[p1] = ep[k2].tr[p2]) <=> (im[k1].tr[p1] = im[k2].tr[p2])

DO_Check(t) ==
    LET s == Sc(t)  ep == DO_Ep(t) IN
    IF ~DO_Pair(t) THEN "PairOK"
    ELSE IF ~DO_SizeOK(ep, s.Nb, s.Nt, s.bb, s.tb) THEN "SizeOK"
    ELSE IF t.len # Len(ep) THEN "LenOK"
    ELSE IF ~DO_CoverOK(ep, s.Nb, s.Nt) THEN "CoverOK"
    ELSE "ok"

T2(t) == [t EXCEPT !.batches = t.batches2, !.len = t.len2, !.scenario = [t.scenario EXCEPT !.tb = t.scenario.tb2]]
T3(t) == [t EXCEPT !.batches = t.batches3, !.len = t.len3, !.scenario = [t.scenario EXCEPT !.tb = t.scenario.tb2, !.bb = t.scenario.bb3]]
\* which acknowledged deviation (if any) reproduces a rejected observation exactly
RECURSIVE DevOf(_, _)
DevOf(t, clause) ==
    LET s == Sc(t) IN
    IF s.kind = "points" THEN ""
    ELSE IF clause = "CoverOK(after the trunk batch size changed)" THEN DevOf(T2(t), "CoverOK")
    ELSE IF clause = "CoverOK(after the branch batch size changed)" THEN DevOf(T3(t), "CoverOK")
    ELSE IF clause # "CoverOK" THEN ""
    ELSE IF s.kind = "shared" /\ SameUpToRenaming(DO_Ep(t), ImplEpoch("shared", s.Nb, s.Nt, s.bb, s.tb, {}))
         THEN "dl_shared_joint_index"
    ELSE IF s.kind = "unique" /\ SameUpToRenaming(DO_Ep(t), ImplEpoch("unique", s.Nb, s.Nt, s.bb, s.tb, {"dl_unique_divisor"}))
         THEN "dl_unique_divisor"
    ELSE IF s.kind = "unique" /\ SameUpToRenaming(DO_Ep(t), ImplEpoch("unique", s.Nb, s.Nt, s.bb, s.tb, {"dl_unique_oversize"}))
         THEN "dl_unique_oversize"
    ELSE IF s.kind = "unique" /\ SameUpToRenaming(DO_Ep(t), ImplEpoch("unique", s.Nb, s.Nt, s.bb, s.tb, {"dl_unique_oversize", "dl_unique_divisor"}))
         THEN "dl_unique_divisor+dl_unique_oversize"
    ELSE ""

\* the second epoch of a per-function loader, after the data set's trunk batch size was changed: judged like a first epoch with that size
DO_Check2(t) == LET c == DO_Check(t) IN
                IF c # "ok" \/ ~Has(t, "batches2") THEN c
                ELSE LET c2 == DO_Check(T2(t)) IN
                     IF c2 # "ok" THEN c2 \o "(after the trunk batch size changed)"
                     ELSE IF ~Has(t, "batches3") THEN "ok"
                     ELSE LET c3 == DO_Check(T3(t)) IN IF c3 = "ok" THEN "ok" ELSE c3 \o "(after the branch batch size changed)"
Check(t) == IF Has(t, "driver_error") THEN "driver-error"
            ELSE IF Has(t, "error") THEN "call-failed:" \o (IF Len(t.error) > 1 THEN t.error[2] ELSE t.error[1])
            \* the user's tensors are the user's: building loaders (also two from the same tensors) leaves them unchanged
            ELSE IF Has(t, "user_same") /\ \E i \in DOMAIN t.user_same : ~t.user_same[i] THEN "user-tensors-modified-by-the-loader"
            ELSE IF Sc(t).kind = "points" THEN PD_Check(t) ELSE DO_Check2(t)

Init == tid \in 1..Len(Traces) /\ verdict = Check(Traces[tid])
Next == UNCHANGED vars
Report == /\ TLCSet(1, TLCGet(1) \cup {tid})
          /\ (verdict = "ok" \/ PrintT(<<"REJ", Traces[tid].tid, verdict, DevOf(Traces[tid], verdict)>>))
Post == PrintT(<<"VALIDATED", Cardinality(TLCGet(1))>>)
ASSUME TLCSet(1, {})
==========================================================================

SPECIFICATION Spec
CONSTANTS Mode = "single" MaxOps = 0
CONSTRAINT Emit
POSTCONDITION Post
CHECK_DEADLOCK FALSE

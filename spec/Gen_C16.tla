----------------------------- MODULE Gen_C16 -----------------------------
(* Scenario generation for C16: TLC enumerates every loader configuration up to the bounds and
   writes one scenario per line.  Shuffle flags: all combinations (AllFlags) or one combination
   per configuration chosen by a hash of the sizes. *)
EXTENDS Integers, Sequences, FiniteSets, TLC, Json, IOUtils, SequencesExt
CONSTANTS MaxN, MaxB, AllFlags

BSizes == (1..MaxB) \cup {-1}
D(L) == [i \in 1..L |-> (((i - 1) * 7 + 3) % 5) - 2]
Aggs == << [norm |-> 0, root |-> 1, full |-> TRUE],  [norm |-> 1, root |-> 1, full |-> TRUE],
           [norm |-> 2, root |-> 1, full |-> TRUE],  [norm |-> 2, root |-> 2, full |-> TRUE],
           [norm |-> 3, root |-> 1, full |-> TRUE],
           [norm |-> 0, root |-> 1, full |-> FALSE], [norm |-> 2, root |-> 1, full |-> FALSE] >>
FlagOK(h, sb, st) == AllFlags \/ (sb = ((h % 2) = 1) /\ st = (((h \div 2) % 2) = 1))
PointsScen ==
    {[kind |-> "points", Nb |-> L, Nt |-> 1, bb |-> bs, tb |-> 1, drop |-> dr, shufB |-> sb, shufT |-> FALSE,
      d |-> D(L), agg |-> Aggs, bb2 |-> (bs % (MaxB + 2)) + 1] :
        L \in 1..(MaxN + 2), bs \in 1..(MaxB + 2), dr \in BOOLEAN, sb \in BOOLEAN}
DOScen ==
    {[kind |-> k, Nb |-> nb, Nt |-> nt, bb |-> bb, tb |-> tb, drop |-> FALSE, shufB |-> f[1], shufT |-> f[2],
      d |-> <<>>, agg |-> <<>>, bb2 |-> 0,
      \* per-function layout: the trunk batch size of the data set is changed after the first epoch (the data set recomputes
      \* its batch counts "for the case when the batch size changed") to another size within the data
      tb2 |-> IF tb = -1 THEN 1 ELSE (tb % nt) + 1,
      \* ... and after the second epoch the BRANCH batch size, too (third epoch)
      bb3 |-> IF bb = -1 THEN 1 ELSE (bb % nb) + 1] :
        k \in {"shared", "unique"}, nb \in 1..MaxN, nt \in 1..MaxN, bb \in BSizes, tb \in BSizes,
        f \in {g \in BOOLEAN \X BOOLEAN : TRUE}}
Scen == PointsScen \cup {s \in DOScen : FlagOK(s.Nb + 3 * s.Nt + 5 * s.bb + 7 * s.tb, s.shufB, s.shufT)}
ASSUME ndJsonSerialize(IOEnv.OUT_FILE, SetToSeq(Scen))
ASSUME PrintT(<<"SCENARIOS", Cardinality(Scen)>>)
==========================================================================

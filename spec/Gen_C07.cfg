CONSTANTS NSteps = 3 CkMode = FALSE

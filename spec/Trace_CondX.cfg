INIT Init
NEXT Next
CONSTRAINT Fin
POSTCONDITION Post
CHECK_DEADLOCK FALSE

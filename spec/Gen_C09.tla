----------------------------- MODULE Gen_C09 -----------------------------
(* Configurations for C09: output dimension, neurons, hidden sizes, trunk input dimension, batches of function ids x
   location ids in different compositions and input forms, and a fix_input / forward history. *)
EXTENDS Integers, Sequences, FiniteSets, TLC, Json, IOUtils, SequencesExt
Batches == << <<<<1, 2, 3>>, <<1, 2, 3>>, "tensor">>, <<<<3, 1>>, <<2>>, "tensor">>, <<<<2>>, <<3, 1, 2>>, "points">>,
              <<<<2, 3, 1>>, <<3>>, "points">>, <<<<1>>, <<2, 1>>, "callable">>, <<<<3>>, <<1, 3>>, "single_tensor">>,
              <<<<2>>, <<2, 3>>, "callable">>, <<<<2, 3>>, <<1, 2>>, "funcset">>, <<<<1, 3, 2>>, <<3>>, "funcset_sum">>, <<<<3>>, <<2, 1>>, "funcset">> >>
Scen == {[dim |-> d, neurons |-> d * nn, th |-> th, bh |-> bh, tdim |-> td, m |-> 3, batches |-> Batches,
          history |-> <<1, 0, 0, 2, 0, 3, 0>>, bk |-> bk] :
            d \in 1..2, nn \in 1..3, th \in {<<2>>, <<3, 2>>}, bh \in {<<2>>, <<2, 3>>}, td \in 1..2,
            bk \in {"fc", "conv"}}          \* branch architecture: fully connected, or a 1-D convolution followed by FC layers
\* input functions with TWO components, discretised at as many points as they have components (m = 2) or at more (m = 3)
Scen2 == {[dim |-> 1, neurons |-> 2, th |-> <<2>>, bh |-> bh, tdim |-> td, m |-> m, batches |-> Batches,
           history |-> <<1, 0, 0, 2, 0, 3, 0>>, bk |-> bk, fdim |-> 2] : bh \in {<<2>>, <<2, 3>>}, td \in 1..2, m \in 2..3, bk \in {"fc", "conv"}}
\* one wide network (256 neurons) that is also evaluated on 2 functions x 8300 locations
Scen3 == {[dim |-> 1, neurons |-> 256, th |-> <<2>>, bh |-> <<2>>, tdim |-> 1, m |-> 3, batches |-> Batches,
           history |-> <<1, 0, 0, 2, 0, 3, 0>>, bk |-> "fc", big |-> TRUE]}
ASSUME ndJsonSerialize(IOEnv.OUT_FILE, SetToSeq(Scen \cup Scen2 \cup Scen3)) /\ PrintT(<<"SCENARIOS", Cardinality(Scen \cup Scen2 \cup Scen3)>>)
==========================================================================

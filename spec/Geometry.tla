------------------------------ MODULE Geometry ------------------------------
(* Domain expressions of torchphysics (problem/domains) and the SETS THEY DENOTE, in exact integer
   arithmetic.  This module is the independent oracle of properties C05 C01 C17 C18 C10 C06 C11.

   Universe ("lattice geometry"):
     * shape data are affine forms  a = [c |-> Int, k |-> [Name -> Int]]  with real value
            c/4 + SUM_n k[n] * value(n)
       (constants in quarter units, unit slopes w.r.t. named parameters or coordinates of other factors);
     * a point is HOMOGENEOUS:  Q = [val |-> [Name -> Seq(Int)], w |-> Int]; the real value of entry i of
       name n is val[n][i] / (F * w) with F = 256 fine units per real unit.  Names cover the space variables
       AND the parameters the point is paired with (a parameter is a 1-tuple), so a parameter-dependent
       shape is evaluated row-wise with each point's own parameter row;
     * rotations come from a table of RATIONAL matrices <<c, s, h>> (cos = c/h, sin = s/h).
   Expression AST (records, field k = kind):
     interval(v, lo, hi)  point(v, p)  par(v, o, a, b)  tri(v, o, a, b)  circle(v, c, r)  sphere(v, c, r)
     union(l, r) cut(l, r) and(l, r) prod(l, r)  trans(d, t)  rot(d, m, p)  bd(d) bdl(d) bdr(d)
     poly(v, rings)        ShapelyPolygon: rings of CONSTANT quarter-unit vertices, ring 1 = exterior, others = holes,
                           either orientation; denotation by the crossing number of all rings (closed set)
     mesh(v, vs, fs, tets) TrimeshPolyhedron: constant quarter-unit vertices vs, surface triangles fs (indices into vs,
                           any winding) as the code receives them, and a decomposition tets (4 indices each) that the
                           oracle uses: the set is the union of the closed tetrahedra (MeshWF checks that the surface
                           of the decomposition is exactly fs)                                                        *)
EXTENDS Integers, Sequences, FiniteSets
F == 256          \* fine units per real unit
Q4 == 64          \* fine units per quarter unit
Range(s) == {s[i] : i \in DOMAIN s}
Sgn(x) == IF x > 0 THEN 1 ELSE IF x < 0 THEN -1 ELSE 0
AbsI(x) == IF x < 0 THEN -x ELSE x
RECURSIVE SumOver(_, _)
SumOver(S, f) == IF S = {} THEN 0 ELSE LET x == CHOOSE x \in S : TRUE IN f[x] + SumOver(S \ {x}, f)

RotTab == [r0 |-> <<1, 0, 1>>, r90 |-> <<0, 1, 1>>, r180 |-> <<-1, 0, 1>>, r270 |-> <<0, -1, 1>>,
           p345 |-> <<4, 3, 5>>, m345 |-> <<4, -3, 5>>, p51213 |-> <<12, 5, 13>>]
\* a rot node rotates by the matrix R = M / h:
\*   m in DOMAIN RotTab : the 2-D matrix (c, -s; s, c) / h of the table;
\*   m = "quarter"      : 2-D rotation by (pi/2) * value(an) of the parameter an (Rotate.from_angles with an angle FUNCTION);
\*   m in DOMAIN Rot3Tab: a 3-D rotation given as integer matrix and denominator (about z, about x, about y, about z then x)
QuarterNames == <<"r0", "r90", "r180", "r270">>
Rot3Tab == [z345 |-> <<<<<<4, -3, 0>>, <<3, 4, 0>>, <<0, 0, 5>>>>, 5>>,
            x345 |-> <<<<<<5, 0, 0>>, <<0, 4, -3>>, <<0, 3, 4>>>>, 5>>,
            y90  |-> <<<<<<0, 0, 1>>, <<0, 1, 0>>, <<-1, 0, 0>>>>, 1>>,
            zx   |-> <<<<<<20, -12, 9>>, <<15, 16, -12>>, <<0, 15, 20>>>>, 25>>]        \* z345 * x345
Mat2(t) == <<<<<<t[1], -t[2]>>, <<t[2], t[1]>>>>, t[3]>>

(* ---------------------------- affine forms ---------------------------- *)
\* value of affine form a at Q, in fine units times Q.w
Aff(a, Q) == a.c * Q4 * Q.w + SumOver(DOMAIN a.k, [n \in DOMAIN a.k |-> a.k[n] * Q.val[n][1]])
AffV(av, Q) == [i \in DOMAIN av |-> Aff(av[i], Q)]
AffVars(a) == {n \in DOMAIN a.k : a.k[n] # 0}
AffVVars(av) == UNION {AffVars(av[i]) : i \in DOMAIN av}
\* substitute binding b (Name -> integer real value) into a
AffPE(a, b) == [c |-> a.c + 4 * SumOver(DOMAIN a.k \cap DOMAIN b, [n \in DOMAIN a.k \cap DOMAIN b |-> a.k[n] * b[n]]),
                k |-> [n \in (DOMAIN a.k) \ (DOMAIN b) |-> a.k[n]]]
AffVPE(av, b) == [i \in DOMAIN av |-> AffPE(av[i], b)]

(* ---------------------------- denotation ---------------------------- *)
\* replace the coordinates of variable v in Q (same scale)
WithVal(Q, v, xs) == [Q EXCEPT !.val[v] = xs]
\* multiply the homogeneous scale by h, giving variable v the (already h-scaled) coordinates xs
Rescale(Q, v, xs, h) == [val |-> [n \in DOMAIN Q.val |-> IF n = v THEN xs ELSE [i \in DOMAIN Q.val[n] |-> Q.val[n][i] * h]],
                         w |-> Q.w * h]
(* ---------------------------- polygons and polyhedra ---------------------------- *)
\* directed edges <<a, b>> of all rings of a polygon (vertices in quarter units)
RingEdges(r) == {<<r[i], r[(i % Len(r)) + 1]>> : i \in DOMAIN r}
PolyEdges(e) == UNION {RingEdges(e.rings[j]) : j \in DOMAIN e.rings}
MinI(a, b) == IF a <= b THEN a ELSE b
MaxI(a, b) == IF a >= b THEN a ELSE b
\* closed polygon with holes: on an edge, or an odd number of edges crossed by the ray from the point towards +x
PolyIn(e, Q) ==
  LET qx == Q.val[e.v][1]   qy == Q.val[e.v][2]   s == Q4 * Q.w
      Cr(ed) == LET ax == ed[1][1] * s  ay == ed[1][2] * s  bx == ed[2][1] * s  by == ed[2][2] * s
                IN (bx - ax) * (qy - ay) - (by - ay) * (qx - ax)
      On(ed) == LET ax == ed[1][1] * s  ay == ed[1][2] * s  bx == ed[2][1] * s  by == ed[2][2] * s
                IN Cr(ed) = 0 /\ MinI(ax, bx) <= qx /\ qx <= MaxI(ax, bx) /\ MinI(ay, by) <= qy /\ qy <= MaxI(ay, by)
      Crossed(ed) == LET ay == ed[1][2] * s  by == ed[2][2] * s
                     IN ((ay > qy) # (by > qy)) /\ (IF by > ay THEN Cr(ed) > 0 ELSE Cr(ed) < 0)
  IN (\E ed \in PolyEdges(e) : On(ed)) \/ Cardinality({ed \in PolyEdges(e) : Crossed(ed)}) % 2 = 1
\* cross product / dot product of integer 3-vectors
Cross3(u, w) == <<u[2] * w[3] - u[3] * w[2], u[3] * w[1] - u[1] * w[3], u[1] * w[2] - u[2] * w[1]>>
Dot3(u, w) == u[1] * w[1] + u[2] * w[2] + u[3] * w[3]
Sub3(u, w) == <<u[1] - w[1], u[2] - w[2], u[3] - w[3]>>
\* closed tetrahedron (a, b, c, d in quarter units): for every face the query point is not strictly on the other side than the
\* opposite vertex; face normals are computed in quarter units, only the last dot product is in fine units
TetIn(a, b, c, d, q, s) ==
  LET Side(p1, p2, p3, o) == LET nrm == Cross3(Sub3(p2, p1), Sub3(p3, p1))
                                 so == Sgn(Dot3(nrm, Sub3(o, p1)))
                                 sq == Sgn(Dot3(nrm, <<q[1] - p1[1] * s, q[2] - p1[2] * s, q[3] - p1[3] * s>>))
                             IN sq = 0 \/ sq = so
  IN Side(a, b, c, d) /\ Side(a, b, d, c) /\ Side(a, c, d, b) /\ Side(b, c, d, a)
MeshIn(e, Q) == LET q == Q.val[e.v]  s == Q4 * Q.w IN
                \E i \in DOMAIN e.tets : LET t == e.tets[i] IN TetIn(e.vs[t[1]], e.vs[t[2]], e.vs[t[3]], e.vs[t[4]], q, s)
\* well-formedness of a mesh term: the triangles of the decomposition that belong to exactly one tetrahedron are exactly the
\* surface triangles handed to the code (as vertex sets), and no tetrahedron is flat
TetFaces(t) == {{t[1], t[2], t[3]}, {t[1], t[2], t[4]}, {t[1], t[3], t[4]}, {t[2], t[3], t[4]}}
TetDet(e, t) == Dot3(Cross3(Sub3(e.vs[t[2]], e.vs[t[1]]), Sub3(e.vs[t[3]], e.vs[t[1]])), Sub3(e.vs[t[4]], e.vs[t[1]]))
MeshWF(e) == /\ \A i \in DOMAIN e.tets : TetDet(e, e.tets[i]) # 0
             /\ LET all == UNION {TetFaces(e.tets[i]) : i \in DOMAIN e.tets}
                    outer == {f \in all : Cardinality({i \in DOMAIN e.tets : f \in TetFaces(e.tets[i])}) = 1}
                IN outer = {{e.fs[j][1], e.fs[j][2], e.fs[j][3]} : j \in DOMAIN e.fs} /\ Cardinality(outer) = Len(e.fs)
\* twice the signed area of a ring (shoelace), quarter units squared
RECURSIVE ShoeR(_, _)
ShoeR(r, i) == IF i > Len(r) THEN 0
               ELSE LET a == r[i]  b == r[(i % Len(r)) + 1] IN a[1] * b[2] - a[2] * b[1] + ShoeR(r, i + 1)
\* quarter turns of a "quarter" node at Q: ao + value(an) [+ value(an2)]  (an2 = "": an angle function of one variable)
QTurns(e, Q) == e.ao + (Q.val[e.an][1] \div (F * Q.w)) + (IF e.an2 = "" THEN 0 ELSE Q.val[e.an2][1] \div (F * Q.w))
RotM(e, Q) == IF e.m = "quarter" THEN Mat2(RotTab[QuarterNames[(QTurns(e, Q) % 4) + 1]])
              ELSE IF e.m \in DOMAIN RotTab THEN Mat2(RotTab[e.m]) ELSE Rot3Tab[e.m]
\* the point whose image under the rotation is Q (inverse rotation R^T about p), on the scale multiplied by h
RotBack(e, Q) == LET mh == RotM(e, Q)  M == mh[1]  h == mh[2]  p == AffV(e.p, Q)  q == Q.val[e.v]
                     dq == [j \in DOMAIN q |-> q[j] - p[j]]
                 IN Rescale(Q, e.v, [i \in DOMAIN q |-> SumOver(DOMAIN q, [j \in DOMAIN q |-> M[j][i] * dq[j]]) + p[i] * h], h)
RECURSIVE In(_, _)
In(e, Q) ==
  CASE e.k = "interval" -> LET x == Q.val[e.v][1] IN Aff(e.lo, Q) <= x /\ x <= Aff(e.hi, Q)
    [] e.k = "point" -> \A i \in DOMAIN e.p : Q.val[e.v][i] = Aff(e.p[i], Q)
    [] e.k \in {"par", "tri"} ->
         LET o == AffV(e.o, Q)  a == AffV(e.a, Q)  b == AffV(e.b, Q)
             qx == Q.val[e.v][1] - o[1]   qy == Q.val[e.v][2] - o[2]
             d1x == a[1] - o[1]  d1y == a[2] - o[2]  d2x == b[1] - o[1]  d2y == b[2] - o[2]
             \* everything carries one factor w; divide the directions by w where exact (w | d) is not guaranteed,
             \* so compare cross products of equal homogeneous degree instead
             det == d1x * d2y - d1y * d2x
             sg == Sgn(det)
             u == sg * (qx * d2y - qy * d2x)
             vv == sg * (d1x * qy - d1y * qx)
             D == sg * det
         IN IF e.k = "par" THEN u >= 0 /\ u <= D /\ vv >= 0 /\ vv <= D
                           ELSE u >= 0 /\ vv >= 0 /\ u + vv <= D
    [] e.k \in {"circle", "sphere"} ->
         LET c == AffV(e.c, Q)  r == Aff(e.r, Q)
             d == [i \in DOMAIN c |-> Q.val[e.v][i] - c[i]]
         \* (a radius function may go negative for some parameter rows: the ball is empty there)
         IN r >= 0 /\ SumOver(DOMAIN c, [i \in DOMAIN c |-> d[i] * d[i]]) <= r * r
    [] e.k = "poly" -> PolyIn(e, Q)
    [] e.k = "mesh" -> MeshIn(e, Q)
    [] e.k = "union" -> In(e.l, Q) \/ In(e.r, Q)
    [] e.k = "cut"   -> In(e.l, Q) /\ ~In(e.r, Q)
    [] e.k = "and"   -> In(e.l, Q) /\ In(e.r, Q)
    [] e.k = "prod"  -> In(e.l, Q) /\ In(e.r, Q)
    [] e.k = "trans" -> LET t == AffV(e.t, Q) IN
                        In(e.d, WithVal(Q, e.v, [i \in DOMAIN t |-> Q.val[e.v][i] - t[i]]))
    [] e.k = "rot"   -> In(e.d, RotBack(e, Q))

\* the space variables of an expression, in order, with their dimensions
RECURSIVE SpaceOf(_)
SpaceOf(e) == CASE e.k = "interval" -> <<<<e.v, 1>>>>
                [] e.k = "point" -> <<<<e.v, Len(e.p)>>>>
                [] e.k \in {"par", "tri", "circle", "poly"} -> <<<<e.v, 2>>>>
                [] e.k \in {"sphere", "mesh"} -> <<<<e.v, 3>>>>
                [] e.k \in {"union", "cut", "and"} -> SpaceOf(e.l)
                [] e.k = "prod" -> SpaceOf(e.l) \o SpaceOf(e.r)
                [] e.k \in {"trans", "rot", "bd", "bdl", "bdr"} -> SpaceOf(e.d)
SpaceVars(e) == {SpaceOf(e)[i][1] : i \in DOMAIN SpaceOf(e)}

\* Q itself and Q moved by +-eps fine units along each coordinate axis of the variables of e
Coords(e, Q) == {c \in SpaceVars(e) \X (1..3) : c[2] \in DOMAIN Q.val[c[1]]}
Moved(Q, c, d) == [Q EXCEPT !.val[c[1]][c[2]] = @ + d * Q.w]
Stencil(e, Q, eps) == {Q} \cup {Moved(Q, c, eps) : c \in Coords(e, Q)} \cup {Moved(Q, c, -eps) : c \in Coords(e, Q)}
\* the full box stencil: every combination of -eps, 0, +eps on the coordinates (3^d points); needed where the
\* other side of the boundary is only reachable diagonally (re-entrant corners)
BoxShifts(e, Q, eps) == [Coords(e, Q) -> {-eps, 0, eps}]
ShiftAll(Q, sh) == [Q EXCEPT !.val = [n \in DOMAIN Q.val |->
                       [i \in DOMAIN Q.val[n] |-> IF <<n, i>> \in DOMAIN sh THEN Q.val[n][i] + sh[<<n, i>>] * Q.w ELSE Q.val[n][i]]]]
StencilBox(e, Q, eps) == {ShiftAll(Q, sh) : sh \in BoxShifts(e, Q, eps)}
NearBdBox(e, Q, eps) == {In(e, P) : P \in StencilBox(e, Q, eps)} = {TRUE, FALSE}
\* number of primitive leaves of e whose OWN boundary passes within eps of Q (Q transported into the leaf's frame)
RECURSIVE LeafBdCount(_, _, _)
LeafBdCount(e, Q, eps) ==
  CASE e.k \in {"interval", "point", "par", "tri", "circle", "sphere", "poly", "mesh"} -> IF NearBdBox(e, Q, eps) THEN 1 ELSE 0
    [] e.k \in {"union", "cut", "and", "prod"} -> LeafBdCount(e.l, Q, eps) + LeafBdCount(e.r, Q, eps)
    [] e.k = "trans" -> LET t == AffV(e.t, Q) IN
                        LeafBdCount(e.d, WithVal(Q, e.v, [i \in DOMAIN t |-> Q.val[e.v][i] - t[i]]), eps)
    [] e.k = "rot"   -> LeafBdCount(e.d, RotBack(e, Q), eps)
    [] OTHER -> 0
\* within eps of the (topological) boundary of Den(e): the eps-stencil is mixed
NearBd(e, Q, eps) == {In(e, P) : P \in Stencil(e, Q, eps)} = {TRUE, FALSE}
\* in the closed set up to tolerance
\* membership up to tolerance: the axis stencil first (cheap); at sharp corners (a 45-degree vertex after a non-axis
\* rotation) the set may pass between the stencil points, so every lattice point of the (eps+1)-box is tried before rejecting
DenseBox(e, Q, eps) == {ShiftAll(Q, sh) : sh \in [Coords(e, Q) -> -eps..eps]}
InTol(e, Q, eps) == (\E P \in Stencil(e, Q, eps) : In(e, P)) \/ (\E P \in DenseBox(e, Q, eps + 1) : In(e, P))
\* on the boundary up to tolerance: inside and outside points within the box stencil, resp. within the dense (eps+1)-box
NearBdTol(e, Q, eps) == NearBdBox(e, Q, eps) \/ {In(e, P) : P \in DenseBox(e, Q, eps + 1)} = {TRUE, FALSE}

(* ---------------------------- free variables, partial evaluation ---------------------------- *)
RECURSIVE FreeVars(_)
FreeVars(e) ==
  CASE e.k = "interval" -> AffVars(e.lo) \cup AffVars(e.hi)
    [] e.k = "point" -> AffVVars(e.p)
    [] e.k \in {"par", "tri"} -> AffVVars(e.o) \cup AffVVars(e.a) \cup AffVVars(e.b)
    [] e.k \in {"circle", "sphere"} -> AffVVars(e.c) \cup AffVars(e.r)
    [] e.k \in {"poly", "mesh"} -> {}
    [] e.k \in {"union", "cut", "and"} -> FreeVars(e.l) \cup FreeVars(e.r)
    [] e.k = "prod" -> (FreeVars(e.l) \ SpaceVars(e.r)) \cup FreeVars(e.r)
    [] e.k = "trans" -> FreeVars(e.d) \cup AffVVars(e.t)
    [] e.k = "rot" -> FreeVars(e.d) \cup AffVVars(e.p) \cup (IF e.m = "quarter" THEN {e.an, e.an2} \ {""} ELSE {})
    [] e.k \in {"bd", "bdl", "bdr"} -> FreeVars(e.d)
RECURSIVE PE(_, _)
PE(e, b) ==
  CASE e.k = "interval" -> [e EXCEPT !.lo = AffPE(e.lo, b), !.hi = AffPE(e.hi, b)]
    [] e.k = "point" -> [e EXCEPT !.p = AffVPE(e.p, b)]
    [] e.k \in {"par", "tri"} -> [e EXCEPT !.o = AffVPE(e.o, b), !.a = AffVPE(e.a, b), !.b = AffVPE(e.b, b)]
    [] e.k \in {"circle", "sphere"} -> [e EXCEPT !.c = AffVPE(e.c, b), !.r = AffPE(e.r, b)]
    [] e.k \in {"poly", "mesh"} -> e
    [] e.k \in {"union", "cut", "and", "prod"} -> [e EXCEPT !.l = PE(e.l, b), !.r = PE(e.r, b)]
    [] e.k = "trans" -> [e EXCEPT !.d = PE(e.d, b), !.t = AffVPE(e.t, b)]
    \* a quarter-turn node: bound angle variables add to the offset ao; with no angle variable left it is a constant quarter turn
    [] e.k = "rot" -> IF e.m = "quarter"
                      THEN LET ns == {e.an, e.an2} \ {""}
                               rest == ns \ DOMAIN b
                               ao2 == e.ao + SumOver(ns \cap DOMAIN b, [n \in ns \cap DOMAIN b |-> b[n]])
                           IN IF rest = {} THEN [k |-> "rot", v |-> e.v, d |-> PE(e.d, b), m |-> QuarterNames[(ao2 % 4) + 1], p |-> AffVPE(e.p, b)]
                              ELSE LET n1 == IF e.an \in rest THEN e.an ELSE e.an2 IN
                                   [e EXCEPT !.d = PE(e.d, b), !.p = AffVPE(e.p, b), !.ao = ao2, !.an = n1, !.an2 = IF rest = {n1} THEN "" ELSE e.an2]
                      ELSE [e EXCEPT !.d = PE(e.d, b), !.p = AffVPE(e.p, b)]
    [] e.k \in {"bd", "bdl", "bdr"} -> [e EXCEPT !.d = PE(e.d, b)]

(* ---------------------------- exact measures ---------------------------- *)
\* a measure is <<a, bpi, den>> meaning (a + bpi * pi) / den ; shape data at integer parameter rows are quarter
\* integers, so lengths have den 4, areas 16, volumes 64.  Only defined where the property fixes the value.
AffQ(a, env) == a.c + 4 * SumOver(DOMAIN a.k, [n \in DOMAIN a.k |-> a.k[n] * env[n]])      \* quarter units, env = integer parameter row
AffVQ(av, env) == [i \in DOMAIN av |-> AffQ(av[i], env)]
\* integer square root by Newton's iteration from above (start 46340 = floor(sqrt(2^31)), no 32-bit overflow)
RECURSIVE ISqrtR(_, _)
ISqrtR(n, r) == LET r2 == (r + n \div r) \div 2 IN IF r2 >= r THEN r ELSE ISqrtR(n, r2)
ISqrt(n) == IF n <= 0 THEN 0 ELSE ISqrtR(n, 46340)
\* euclidean length of the quarter-unit vector (dx, dy) in 1/1024 units (rounded down; error < 1 unit)
Len1024(dx, dy) == ISqrt((dx * dx + dy * dy) * 65536)
MAdd(m1, m2) == LET d == m1[3] * m2[3] IN <<m1[1] * m2[3] + m2[1] * m1[3], m1[2] * m2[3] + m2[2] * m1[3], d>>
MSub(m1, m2) == MAdd(m1, <<-m2[1], -m2[2], m2[3]>>)
MMul(m1, m2) == <<m1[1] * m2[1], m1[1] * m2[2] + m1[2] * m2[1], m1[3] * m2[3]>>      \* valid when at most one factor has a pi part
HasVol(e) == e.k \in {"interval", "point", "par", "tri", "circle", "sphere", "poly", "mesh", "trans", "rot", "bd", "bdl", "bdr", "prod", "union", "cut"}
RECURSIVE Vol(_, _)
Vol(e, env) ==
  CASE e.k = "interval" -> <<AffQ(e.hi, env) - AffQ(e.lo, env), 0, 4>>
    [] e.k = "point" -> <<1, 0, 1>>
    [] e.k \in {"par", "tri"} ->
         LET o == AffVQ(e.o, env)  a == AffVQ(e.a, env)  b == AffVQ(e.b, env)
             det == (a[1] - o[1]) * (b[2] - o[2]) - (a[2] - o[2]) * (b[1] - o[1])
         IN <<AbsI(det), 0, IF e.k = "par" THEN 16 ELSE 32>>
    [] e.k = "circle" -> LET r == AffQ(e.r, env) IN <<0, r * r, 16>>
    [] e.k = "sphere" -> LET r == AffQ(e.r, env) IN <<0, 4 * r * r * r, 3 * 64>>
    [] e.k = "poly" -> <<AbsI(ShoeR(e.rings[1], 1)) - SumOver(2..Len(e.rings), [j \in 2..Len(e.rings) |-> AbsI(ShoeR(e.rings[j], 1))]), 0, 32>>
    [] e.k = "mesh" -> <<SumOver(DOMAIN e.tets, [i \in DOMAIN e.tets |-> AbsI(TetDet(e, e.tets[i]))]), 0, 6 * 64>>
    [] e.k \in {"trans", "rot"} -> Vol(e.d, env)
    [] e.k = "prod" -> MMul(Vol(e.l, env), Vol(e.r, env))              \* independent factors
    [] e.k = "union" -> MAdd(Vol(e.l, env), Vol(e.r, env))             \* declared (and verified) disjoint
    [] e.k = "cut" -> MSub(Vol(e.l, env), Vol(e.r, env))               \* declared (and verified) contained
    [] e.k \in {"bdl", "bdr"} -> <<1, 0, 1>>
    [] e.k = "bd" ->
         LET d == e.d IN
         CASE d.k = "interval" -> <<2, 0, 1>>
           [] d.k = "circle" -> <<0, 2 * AffQ(d.r, env), 4>>
           [] d.k = "sphere" -> LET r == AffQ(d.r, env) IN <<0, 4 * r * r, 16>>
           [] d.k \in {"par", "tri"} ->
                LET o == AffVQ(d.o, env)  a == AffVQ(d.a, env)  b == AffVQ(d.b, env)
                    l1 == Len1024(a[1] - o[1], a[2] - o[2])
                    l2 == Len1024(b[1] - o[1], b[2] - o[2])
                    l3 == Len1024(b[1] - a[1], b[2] - a[2])
                IN IF d.k = "par" THEN <<2 * (l1 + l2), 0, 1024>> ELSE <<l1 + l2 + l3, 0, 1024>>
           [] d.k = "poly" -> <<SumOver(PolyEdges(d), [ed \in PolyEdges(d) |-> Len1024(ed[2][1] - ed[1][1], ed[2][2] - ed[1][2])]), 0, 1024>>
           \* area of a surface triangle = |cross| / 2 quarter units squared = |cross| / 32; ISqrt(|cross|^2 * 16384) = 128 |cross|
           [] d.k = "mesh" -> <<SumOver(DOMAIN d.fs, [j \in DOMAIN d.fs |->
                                   LET f == d.fs[j]  cr == Cross3(Sub3(d.vs[f[2]], d.vs[f[1]]), Sub3(d.vs[f[3]], d.vs[f[1]]))
                                   IN ISqrt(Dot3(cr, cr) * 16384)]), 0, 4096>>
           [] d.k \in {"trans", "rot"} -> Vol([k |-> "bd", d |-> d.d], env)
\* observed value v (fixed point 2^-10) against measure m: | v * den - (a + bpi*pi) * 1024 | <= tol, pi ~ 3217/1024
\* relative tolerance 2^-8 plus 4 units absolute
PiN == 3217
VolClose(v, m) == LET want == m[1] * 1024 + m[2] * PiN          \* = value * den * 1024
                      got == v * m[3]
                      diff == AbsI(got - want)
                  IN diff <= (AbsI(want) + 1024 * m[3]) \div 256
VolPositive(m) == m[1] * 1024 + m[2] * PiN > 0

(* ---------------------------- exact bounding boxes of primitives ---------------------------- *)
\* <<min1, max1, min2, max2, ...>> in fine units, at integer parameter row env
MinS(S) == CHOOSE x \in S : \A y \in S : x <= y
MaxS(S) == CHOOSE x \in S : \A y \in S : x >= y
HasBox(e) == e.k \in {"interval", "par", "tri", "circle", "sphere", "poly", "mesh"}
BoxExact(e, env) ==
  CASE e.k = "interval" -> <<AffQ(e.lo, env) * Q4, AffQ(e.hi, env) * Q4>>
    [] e.k = "par" -> LET o == AffVQ(e.o, env)  a == AffVQ(e.a, env)  b == AffVQ(e.b, env)
                          xs == {o[1], a[1], b[1], a[1] + b[1] - o[1]}  ys == {o[2], a[2], b[2], a[2] + b[2] - o[2]}
                      IN <<MinS(xs) * Q4, MaxS(xs) * Q4, MinS(ys) * Q4, MaxS(ys) * Q4>>
    [] e.k = "tri" -> LET o == AffVQ(e.o, env)  a == AffVQ(e.a, env)  b == AffVQ(e.b, env)
                          xs == {o[1], a[1], b[1]}  ys == {o[2], a[2], b[2]}
                      IN <<MinS(xs) * Q4, MaxS(xs) * Q4, MinS(ys) * Q4, MaxS(ys) * Q4>>
    [] e.k = "poly" -> LET r == e.rings[1]  xs == {r[i][1] : i \in DOMAIN r}  ys == {r[i][2] : i \in DOMAIN r}
                       IN <<MinS(xs) * Q4, MaxS(xs) * Q4, MinS(ys) * Q4, MaxS(ys) * Q4>>
    [] e.k = "mesh" -> LET used == UNION {{e.fs[j][1], e.fs[j][2], e.fs[j][3]} : j \in DOMAIN e.fs}
                       IN [j \in 1..6 |-> LET ax == (j + 1) \div 2  cs == {e.vs[i][ax] : i \in used}
                                          IN (IF j % 2 = 1 THEN MinS(cs) ELSE MaxS(cs)) * Q4]
    [] e.k \in {"circle", "sphere"} ->
         LET c == AffVQ(e.c, env)  r == AffQ(e.r, env)
         IN [j \in 1..(2 * Len(c)) |-> IF j % 2 = 1 THEN (c[(j + 1) \div 2] - r) * Q4 ELSE (c[j \div 2] + r) * Q4]
=============================================================================

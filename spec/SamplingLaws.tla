---------------------------- MODULE SamplingLaws ----------------------------
(* Named sampling laws (property C11) as acceptance regions on integer counts.
   Reference measure of a box = number of points of a fine lattice inside the box that lie in the denoted set
   (Geometry.tla); boxes cut by the boundary get an explicit slack.  All arithmetic in integers.             *)
EXTENDS Geometry
Z == 6
\* | k * tot - N * m | <= Z * sqrt(N * m * (tot - m)) + slack * N + tot      (k of N samples in a cell of mass m / tot)
BinomOK(k, N, m, tot, slack) ==
    LET dev == AbsI(k * tot - N * m)
        \* sqrt(N * m * (tot - m)) <= sqrt(N) * tot / 2  ; use the exact product when it fits 31 bits, else the bound
        sd == IF m * (tot - m) < 2000000000 \div (N + 1) THEN ISqrt(N * m * (tot - m)) + 1 ELSE (ISqrt(N) + 1) * ((ISqrt(m) + 1) * (ISqrt(tot - m) + 1))
    IN dev <= Z * sd + slack * N + tot
\* standard normal distribution function at half-integer arguments, times 65536:  Phi2[2 z + 7]  for z in -3 .. 3
Phi2 == <<88, 407, 1491, 4378, 10398, 20227, 32768, 45309, 55138, 61158, 64045, 65129, 65448>>
PhiAt(z2) == IF z2 <= -7 THEN 0 ELSE IF z2 >= 7 THEN 65536 ELSE Phi2[z2 + 7]       \* z2 = 2 z
\* Latin hypercube on a box: slab indices of the n points along one axis are a permutation of 0..n-1
IsPerm(s, n) == Len(s) = n /\ {s[i] : i \in DOMAIN s} = 0..(n - 1)
=============================================================================

----------------------------- MODULE MC_FuncSet -----------------------------
(* Design-level model of training-time branch evaluation (DeepONet._forward_branch): conditions (network m, function
   set f) are evaluated in any order with the Solver's iteration numbers (the step number in training, None in
   validation) while the user may fix a branch input by hand.  Property: every evaluation computes with the branch output
   for the CURRENT batch of ITS OWN function set, and two evaluations of one function set in the same iteration see the
   same batch.  Deviation "skip" (the code before the fix: the branch is only refreshed when new functions are drawn)
   must violate it. *)
EXTENDS Integers, FiniteSets
CONSTANTS Dev, NM, NF, MaxDraw, MaxStep
VARIABLES iter, draw, held, step, usedOK, sameBatchOK
vars == <<iter, draw, held, step, usedOK, sameBatchOK>>
None == -2
Init == /\ iter = [f \in 1..NF |-> -1] /\ draw = [f \in 1..NF |-> 0] /\ held = [m \in 1..NM |-> <<0, 0>>]
        /\ step = 0 /\ usedOK = TRUE /\ sameBatchOK = TRUE
Eval(m, f, i) ==
    /\ draw[f] < MaxDraw
    /\ LET new == i # iter[f]
           d2 == IF new THEN draw[f] + 1 ELSE draw[f]
           h2 == IF new \/ Dev # "skip" THEN <<f, d2>> ELSE held[m]
       IN /\ iter' = [iter EXCEPT ![f] = i] /\ draw' = [draw EXCEPT ![f] = d2] /\ held' = [held EXCEPT ![m] = h2]
          /\ usedOK' = (h2 = <<f, d2>>)
          /\ sameBatchOK' = (i = iter[f] => d2 = draw[f])
    /\ UNCHANGED step
FixByHand(m) == held' = [held EXCEPT ![m] = <<0, 0>>] /\ UNCHANGED <<iter, draw, step, usedOK, sameBatchOK>>
Tick == step < MaxStep /\ step' = step + 1 /\ UNCHANGED <<iter, draw, held, usedOK, sameBatchOK>>
Next == \/ \E m \in 1..NM, f \in 1..NF, i \in {step, None} : Eval(m, f, i)
        \/ \E m \in 1..NM : FixByHand(m)
        \/ Tick
Spec == Init /\ [][Next]_vars
OwnFunctions == usedOK
SameIterationSameBatch == sameBatchOK
==========================================================================

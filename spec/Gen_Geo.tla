------------------------------ MODULE Gen_Geo ------------------------------
(* Generation of domain expressions for the geometry properties.
   exh : all expressions of depth <= 1 over the primitive pool (constant level);
   sim : (-simulate) an expression grown step by step by wrapping it into random operations; every
         intermediate expression is emitted, so depths 1..Depth all occur.
   Shape data: quarter units, inside [-3, 3]^d, parameters t, k take values 0, 1, 2.                    *)
EXTENDS Geometry, TLC, Json, IOUtils, SequencesExt
CONSTANTS Depth, Mode
VARIABLES e, n
vars == <<e, n>>

A0(c) == [c |-> c, k |-> <<>>]                 \* constant
A1(c, v) == [c |-> c, k |-> [x \in {v} |-> 1]]   \* c/4 + v
A2(c, v, sl) == [c |-> c, k |-> [x \in {v} |-> sl]]   \* c/4 + sl * v
V2(a, b) == <<A0(a), A0(b)>>
\* ---- primitive pool (2-D over x; 1-D over u; 3-D over y)
Par(o, a, b) == [k |-> "par", v |-> "x", o |-> o, a |-> a, b |-> b]
Tri(o, a, b) == [k |-> "tri", v |-> "x", o |-> o, a |-> a, b |-> b]
Cir(c, r) == [k |-> "circle", v |-> "x", c |-> c, r |-> r]
Prims2 == { Par(V2(0, 0), V2(8, 0), V2(0, 8)),                       \* axis-aligned square
            Par(V2(-8, -6), V2(4, -2), V2(-4, 6)),                   \* slanted
            Par(V2(-4, -4), V2(-4, 4), V2(6, -4)),                   \* clockwise vertices
            Par(<<A1(-8, "t"), A0(-4)>>, <<A1(0, "t"), A0(-4)>>, <<A1(-8, "t"), A0(4)>>),   \* moves with t
            Tri(V2(0, 0), V2(10, 0), V2(0, 8)),
            Tri(V2(-10, -4), V2(6, -8), V2(2, 10)),                  \* slanted
            Tri(V2(-6, 6), V2(6, 6), V2(-6, -6)),                    \* clockwise vertices
            Tri(<<A0(-4), A1(-8, "k")>>, <<A0(8), A1(-8, "k")>>, <<A0(-4), A1(0, "k")>>),
            Tri(V2(-4, 0), V2(4, 0), <<A0(0), A2(-6, "k", 2)>>),
            Par(V2(-4, 0), V2(4, 0), <<A0(-3), A2(-6, "k", 2)>>),  \* second corner (-3/4, -3/2 + 2k): orientation flips between k = 0 and k >= 1   \* apex (0, -3/2 + 2k): the vertex orientation flips between k = 0 and k >= 1
            Cir(V2(0, 0), A0(6)),
            Cir(V2(4, -2), A0(4)),
            Cir(<<A1(-4, "t"), A0(0)>>, A1(2, "k")) }                 \* centre moves with t, radius 1/2 + k
\* ---- polygons (ShapelyPolygon) and polyhedra (TrimeshPolyhedron): constant vertices in quarter units
Poly(rs) == [k |-> "poly", v |-> "x", rings |-> rs]
RingL == <<<<-8, -8>>, <<8, -8>>, <<8, 0>>, <<0, 0>>, <<0, 8>>, <<-8, 8>>>>
Polys == { Poly(<<RingL>>),                                                                  \* L-shape, counter-clockwise
           Poly(<<[i \in 1..6 |-> RingL[7 - i]]>>),                                          \* the same, clockwise
           Poly(<<<<<<-8, -6>>, <<8, -4>>, <<2, 0>>, <<6, 8>>, <<-6, 6>>>>>>),                \* slanted edges, one re-entrant vertex
           Poly(<<<<<<-10, -10>>, <<10, -10>>, <<10, 10>>, <<-10, 10>>>>, <<<<-2, -2>>, <<6, -2>>, <<6, 6>>, <<-2, 6>>>>>>),    \* square with a square hole
           \* a rectangular spiral (corridor of width 1/2, two turns): its unconstrained Delaunay triangulation has triangles that straddle the outline
           Poly(<<<<<<8, -8>>, <<8, 8>>, <<-8, 8>>, <<-8, -4>>, <<4, -4>>, <<4, 4>>, <<-4, 4>>, <<-4, 0>>, <<1, 0>>, <<1, -2>>, <<-6, -2>>, <<-6, 6>>, <<6, 6>>, <<6, -6>>,
                      <<-10, -6>>, <<-10, 10>>, <<10, 10>>, <<10, -10>>, <<-9, -10>>, <<-9, -8>>>>>>) }
Mesh(vs, fs, tets) == [k |-> "mesh", v |-> "y", vs |-> vs, fs |-> fs, tets |-> tets]
MeshTet == Mesh(<<<<-4, -4, -4>>, <<8, -4, -4>>, <<-4, 8, -4>>, <<-4, -4, 8>>>>,
                <<<<1, 2, 3>>, <<1, 2, 4>>, <<1, 3, 4>>, <<2, 3, 4>>>>, <<<<1, 2, 3, 4>>>>)              \* mixed winding of the faces
MeshCube == Mesh(<<<<-6, -6, -6>>, <<6, -6, -6>>, <<-6, 6, -6>>, <<6, 6, -6>>, <<-6, -6, 6>>, <<6, -6, 6>>, <<-6, 6, 6>>, <<6, 6, 6>>>>,
                 <<<<1, 2, 3>>, <<4, 2, 3>>, <<1, 2, 5>>, <<6, 2, 5>>, <<1, 3, 5>>, <<7, 3, 5>>,
                   <<4, 2, 8>>, <<6, 2, 8>>, <<4, 3, 8>>, <<7, 3, 8>>, <<6, 5, 8>>, <<7, 5, 8>>>>,
                 <<<<1, 2, 3, 5>>, <<4, 2, 3, 8>>, <<6, 2, 5, 8>>, <<7, 3, 5, 8>>, <<2, 3, 5, 8>>>>)
\* two tetrahedra glued at the face z = -1: the lower apex leans out beyond the edge, the solid is not convex
MeshBi == Mesh(<<<<-4, -4, -4>>, <<8, -4, -4>>, <<-4, 8, -4>>, <<-4, -4, 8>>, <<8, 8, -10>>>>,
               <<<<1, 2, 4>>, <<1, 3, 4>>, <<2, 3, 4>>, <<1, 2, 5>>, <<1, 3, 5>>, <<3, 2, 5>>>>, <<<<1, 2, 3, 4>>, <<1, 2, 3, 5>>>>)
\* the same tetrahedron with every face wound INWARD (consistent winding, inside out)
MeshTetIn == Mesh(<<<<-4, -4, -4>>, <<8, -4, -4>>, <<-4, 8, -4>>, <<-4, -4, 8>>>>,
                  <<<<1, 2, 3>>, <<1, 4, 2>>, <<1, 3, 4>>, <<2, 4, 3>>>>, <<<<1, 2, 3, 4>>>>)
\* two separate bodies in one mesh, the first wound outward, the second inward
MeshTwo == Mesh(<<<<-10, -10, -10>>, <<0, -10, -10>>, <<-10, 0, -10>>, <<-10, -10, 0>>, <<1, 1, 1>>, <<11, 1, 1>>, <<1, 11, 1>>, <<1, 1, 11>>>>,
                <<<<1, 3, 2>>, <<1, 2, 4>>, <<1, 4, 3>>, <<2, 3, 4>>, <<5, 6, 7>>, <<5, 8, 6>>, <<5, 7, 8>>, <<6, 8, 7>>>>,
                <<<<1, 2, 3, 4>>, <<5, 6, 7, 8>>>>)
Meshes == {MeshTet, MeshCube, MeshBi, MeshTetIn, MeshTwo}
ASSUME \A m \in Meshes : MeshWF(m)
\* an interval whose length differs by four orders of magnitude between parameter rows (only in the membership / sampling universe)
IntBig == [k |-> "interval", v |-> "u", lo |-> A0(0), hi |-> A2(4, "t", 10000)]
Ints == { [k |-> "interval", v |-> "u", lo |-> A0(-4), hi |-> A0(6)],
          [k |-> "interval", v |-> "u", lo |-> A1(-4, "t"), hi |-> A1(2, "t")] }
Sph == [k |-> "sphere", v |-> "y", c |-> <<A0(0), A0(2), A0(-2)>>, r |-> A0(6)]
SphT == [k |-> "sphere", v |-> "y", c |-> <<A1(-4, "t"), A0(0), A0(0)>>, r |-> A1(4, "k")]
TransVecs == {V2(4, -2), V2(-3, 5), <<A1(0, "t"), A0(2)>>, <<A1(-4, "k"), A1(-4, "t")>>}
RotPts == {V2(0, 0), V2(2, -4), <<A1(-2, "t"), A0(0)>>}
Rots == {"r90", "r180", "r270", "p345", "m345", "p51213"}
Un(a, b) == [k |-> "union", l |-> a, r |-> b]
Cu(a, b) == [k |-> "cut", l |-> a, r |-> b]
An(a, b) == [k |-> "and", l |-> a, r |-> b]
Tr(d, t) == [k |-> "trans", v |-> "x", d |-> d, t |-> t]
Ro(d, m, p) == [k |-> "rot", v |-> "x", d |-> d, m |-> m, p |-> p]
Pr(a, b) == [k |-> "prod", l |-> a, r |-> b]
Roq(d, an, p) == [k |-> "rot", v |-> "x", d |-> d, m |-> "quarter", an |-> an, an2 |-> "", ao |-> 0, p |-> p]      \* rotation by (pi/2) * parameter an
Roq2(d, p) == [Roq(d, "t", p) EXCEPT !.an2 = "k"]                          \* an angle function of TWO variables: (pi/2) * (t + k)
Ro3(d, m, p) == [k |-> "rot", v |-> "y", d |-> d, m |-> m, p |-> p]
V3(a, b, c) == <<A0(a), A0(b), A0(c)>>
\* a cuboid 3 x 2 x 1 (unequal sides), as a mesh
MeshBox == Mesh(<<<<-6, -4, -2>>, <<6, -4, -2>>, <<-6, 4, -2>>, <<6, 4, -2>>, <<-6, -4, 2>>, <<6, -4, 2>>, <<-6, 4, 2>>, <<6, 4, 2>>>>,
                <<<<1, 2, 3>>, <<4, 2, 3>>, <<1, 2, 5>>, <<6, 2, 5>>, <<1, 3, 5>>, <<7, 3, 5>>,
                  <<4, 2, 8>>, <<6, 2, 8>>, <<4, 3, 8>>, <<7, 3, 8>>, <<6, 5, 8>>, <<7, 5, 8>>>>,
                <<<<1, 2, 3, 5>>, <<4, 2, 3, 8>>, <<6, 2, 5, 8>>, <<7, 3, 5, 8>>, <<2, 3, 5, 8>>>>)
ASSUME MeshWF(MeshBox)
RotQ1 == {Roq(a, an, p) : a \in {Par(V2(-8, -6), V2(4, -2), V2(-4, 6)), Tri(V2(0, 0), V2(10, 0), V2(0, 8)), Cir(<<A1(-4, "t"), A0(0)>>, A1(2, "k")),
                                  Tri(<<A0(-4), A1(-8, "k")>>, <<A0(8), A1(-8, "k")>>, <<A0(-4), A1(0, "k")>>), Poly(<<RingL>>)},
                           an \in {"t", "k"}, p \in RotPts}
RotQ2 == {Roq2(a, p) : a \in {Par(V2(-8, -6), V2(4, -2), V2(-4, 6)), Tri(V2(0, 0), V2(10, 0), V2(0, 8)), Cir(V2(4, -2), A0(4))}, p \in RotPts}
Rot3D1 == {Ro3(a, m, p) : a \in {MeshBox, MeshTet}, m \in {"z345", "x345", "y90", "zx"}, p \in {V3(0, 0, 0), V3(2, -4, 2)}}
          \cup {Ro3(a, m, p) : a \in {Sph, SphT}, m \in {"z345", "x345", "y90"}, p \in {V3(2, -4, 2), <<A1(-2, "t"), A0(0), A0(2)>>}}
          \cup {Ro3(Cu(MeshBox, Sph), "x345", V3(0, 0, 0)), Un(Ro3(MeshBox, "z345", V3(0, 0, 0)), MeshTet)}
\* dependent product: first factor's shape uses the coordinate u of the second
DepCir == Cir(<<A1(-4, "u"), A0(0)>>, A0(4))
DepCirT == Cir(<<A1(-4, "u"), A1(-2, "t")>>, A0(4))             \* centre also moves with the parameter t, constant radius
DepCirR == Cir(V2(0, 0), A1(6, "u"))                              \* radius 3/2 + u: the volume depends on the other factor's point
Depth1 == {Un(a, b) : a \in Prims2, b \in Prims2} \cup {Cu(a, b) : a \in Prims2, b \in Prims2}
          \cup {An(a, b) : a \in Prims2, b \in Prims2}
          \cup {Tr(a, t) : a \in Prims2, t \in TransVecs} \cup {Ro(a, m, p) : a \in Prims2, m \in Rots, p \in RotPts}
          \cup {Pr(a, i) : a \in Prims2, i \in Ints} \cup {Pr(d, i) : d \in {DepCir, DepCirT, DepCirR}, i \in Ints}
          \* Boolean first factor that depends on the second factor's coordinate: its interior sampler is called with n = 1 for
          \* one row per point, every row with another shape
          \cup {Pr(b, i) : b \in {Cu(DepCir, Par(V2(0, 0), V2(8, 0), V2(0, 8))), An(DepCirR, Tri(V2(0, 0), V2(10, 0), V2(0, 8))),
                                   Cu(Par(V2(-8, -6), V2(8, -6), V2(-8, 6)), DepCir),
                                   \* a disc travelling with 2u, cut in half: rows hardly overlap, half the candidates are rejected
                                   An(Cir(<<A2(-6, "u", 2), A0(0)>>, A0(4)), Par(V2(-16, 0), V2(16, 0), V2(-16, 8))),
                                   Cu(Cir(<<A2(-6, "u", 2), A0(0)>>, A0(4)), Par(V2(-16, 0), V2(16, 0), V2(-16, 8)))}, i \in Ints}
          \cup {Pr(i, Tr(a, t)) : i \in Ints, a \in {Cir(V2(0, 0), A0(6)), Par(V2(0, 0), V2(8, 0), V2(0, 8))}, t \in TransVecs}    \* transformed second factor
          \cup {Pr(i, Ro(a, "p345", p)) : i \in Ints, a \in {Tri(V2(0, 0), V2(10, 0), V2(0, 8))}, p \in RotPts}
\* polygons and polyhedra in combinations: with a circle / a slanted parallelogram / a moving triangle on either side, moved, in products
PolyMates == {Cir(V2(0, 0), A0(6)), Par(V2(-8, -6), V2(4, -2), V2(-4, 6)), Tri(<<A0(-4), A1(-8, "k")>>, <<A0(8), A1(-8, "k")>>, <<A0(-4), A1(0, "k")>>)}
PolyD1 == UNION {{Un(q, a), Un(a, q), Cu(q, a), Cu(a, q), An(q, a), An(a, q)} : q \in Polys, a \in PolyMates}
          \cup {Tr(q, t) : q \in Polys, t \in TransVecs} \cup {Ro(q, m, p) : q \in Polys, m \in Rots, p \in RotPts}
          \cup {Pr(q, i) : q \in Polys, i \in Ints} \cup {Pr(i, q) : q \in Polys, i \in Ints}
MeshD1 == {Un(MeshTet, Sph), Cu(Sph, MeshCube), Cu(MeshCube, Sph), An(MeshBi, SphT), An(Sph, MeshTet), Un(MeshCube, MeshBi), Cu(MeshCube, MeshTet)}
\* a disc whose radius 1 - t is zero at t = 1 and NEGATIVE at t = 2 (empty there); only in the membership / sampling universe
CirNeg == Cir(V2(0, 0), A2(4, "t", -1))
NegD1 == {CirNeg, Un(CirNeg, Par(V2(0, 0), V2(8, 0), V2(0, 8))), Cu(Par(V2(-8, -6), V2(4, -2), V2(-4, 6)), CirNeg), Pr(CirNeg, [k |-> "interval", v |-> "u", lo |-> A0(-4), hi |-> A0(6)]),
          Tr(CirNeg, V2(4, -2))}
\* cuts DECLARED contained whose inner operand touches the outer boundary along segments (the library's own test case is of this form)
CutTouch == {[Cu(Par(V2(0, 0), V2(8, 0), V2(0, 8)), Par(V2(0, 0), V2(4, 0), V2(0, 4))) EXCEPT !.k = "cut"] @@ [contained |-> TRUE],
             [Cu(Par(V2(-8, -8), V2(8, -8), V2(-8, 8)), Tri(V2(-8, -8), V2(0, -8), V2(-8, 0))) EXCEPT !.k = "cut"] @@ [contained |-> TRUE]}
Exh == CutTouch \cup Prims2 \cup Ints \cup {IntBig} \cup {Sph, SphT} \cup Polys \cup Meshes \cup PolyD1 \cup MeshD1 \cup RotQ1 \cup RotQ2 \cup Rot3D1 \cup NegD1 \cup {x \in Depth1 : x.k \notin {"union", "cut", "and"} \/ x.l # x.r}

\* ---- random growth
R(S) == RandomElement(S)
\* number of non-axis rotations on the path (magnitude budget of the 32-bit oracle: at most one)
RECURSIVE Slant(_)
Slant(x) == CASE x.k = "rot" -> (IF x.m \in {"p345", "m345", "p51213", "z345", "x345"} THEN 1 ELSE IF x.m = "zx" THEN 2 ELSE 0) + Slant(x.d)
              [] x.k = "trans" -> Slant(x.d)
              [] x.k \in {"union", "cut", "and", "prod"} -> (IF Slant(x.l) > Slant(x.r) THEN Slant(x.l) ELSE Slant(x.r))
              [] OTHER -> 0
PrimsG == Prims2 \cup Polys
Init == e \in PrimsG /\ n = 0
Next == /\ n < Depth /\ n' = n + 1
        /\ \E w \in {R(1..9)}, p \in {R(PrimsG \ {e})}, t \in {R(TransVecs)}, m \in {R(Rots)}, q \in {R(RotPts)}, flip \in {R(BOOLEAN)} :
             e' = CASE w \in {1, 2} -> IF flip THEN Un(e, p) ELSE Un(p, e)
                    [] w \in {3, 4} -> IF flip THEN Cu(e, p) ELSE Cu(p, e)
                    [] w = 5 -> IF flip THEN An(e, p) ELSE An(p, e)
                    [] w = 6 -> Tr(e, t)
                    [] w = 9 -> Roq(e, IF flip THEN "t" ELSE "k", q)
                    [] OTHER -> IF Slant(e) = 0 \/ m \in {"r90", "r180", "r270"} THEN Ro(e, m, q) ELSE Tr(e, t)
Spec == Init /\ [][Next]_vars
Emit == (n >= 1) => TLCSet(2, TLCGet(2) \cup {e})
Out == IF Mode = "exh" THEN Exh ELSE TLCGet(2)
Post == ndJsonSerialize(IOEnv.OUT_FILE, [i \in 1..Cardinality(Out) |-> [expr |-> SetToSeq(Out)[i]]])
        /\ PrintT(<<"SCENARIOS", Cardinality(Out)>>)
ASSUME TLCSet(2, {})
=============================================================================

----------------------------- MODULE Gen_C15 -----------------------------
(* Behaviour generation for C15.  The state is a history of operations on one sampler;
   exhaustive mode enumerates all histories of length Depth, simulation mode (-simulate) draws
   random long ones.  Every history that reaches Depth is written as one scenario line. *)
EXTENDS Integers, Sequences, FiniteSets, TLC, Json, IOUtils, SequencesExt
CONSTANTS Inf, Depth, Ivs, AdaptiveN, MaxLoss, Rand, Kinds
VARIABLES kind, iv0, hist
vars == <<kind, iv0, hist>>

\* "sib": a call on a second static sampler made from the same base sampler (another object: a stutter for the observed one)
StaticOps == {[a |-> "call", iv |-> 0], [a |-> "next", iv |-> 0], [a |-> "sib", iv |-> 0]} \cup {[a |-> "restatic", iv |-> i] : i \in Ivs}
PlainOps == {[a |-> "call", iv |-> 0], [a |-> "next", iv |-> 0], [a |-> "sib", iv |-> 0]}
Ratios == {<<0, 1>>, <<1, 4>>, <<1, 2>>, <<3, 4>>, <<1, 1>>}
\* in simulation mode (Rand) one random loss vector per step keeps the branching small
AdaptOps == IF Rand
            THEN {[a |-> "sample", loss |-> IF RandomElement(1..6) = 1 THEN <<>>
                                            ELSE [i \in 1..AdaptiveN |-> RandomElement(0..MaxLoss)]]}
            ELSE {[a |-> "sample", loss |-> l] : l \in [1..AdaptiveN -> 0..MaxLoss] \cup {<<>>}}

Init == /\ hist = <<>>
        /\ kind \in Kinds
        /\ \/ kind = "static" /\ iv0 \in Ivs
           \/ kind = "plain" /\ iv0 = 1
           \/ kind = "adaptive" /\ iv0 \in 1..5        \* index into Ratios (as a sequence below)
RatioSeq == <<<<0, 1>>, <<1, 4>>, <<1, 2>>, <<3, 4>>, <<1, 1>>>>
Next == /\ Len(hist) < Depth
        /\ \E op \in (IF kind = "static" THEN StaticOps ELSE IF kind = "plain" THEN PlainOps ELSE AdaptOps) :
              hist' = Append(hist, op)
        /\ UNCHANGED <<kind, iv0>>
Spec == Init /\ [][Next]_vars
Scenario == [kind |-> kind, iv0 |-> iv0, ops |-> hist,
             ratio |-> IF kind = "adaptive" THEN RatioSeq[iv0] ELSE <<0, 1>>, n |-> AdaptiveN]
Emit == (Len(hist) = Depth) => TLCSet(2, TLCGet(2) \cup {Scenario})
Post == ndJsonSerialize(IOEnv.OUT_FILE, SetToSeq(TLCGet(2))) /\ PrintT(<<"SCENARIOS", Cardinality(TLCGet(2))>>)
ASSUME TLCSet(2, {})
==========================================================================

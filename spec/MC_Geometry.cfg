SPECIFICATION MSpec
CONSTANTS Depth = 0 Mode = "exh" NL = 2
INVARIANT PELaw
INVARIANT FVLaw
CHECK_DEADLOCK FALSE

---------------------------- MODULE Trace_C05 ----------------------------
(* Trace validation for C05.  A trace holds, for one domain expression, the truth values the real _contains
   returned for lattice query points (each with its OWN parameter row) and, for the boundary object, for
   lattice points and for the points of its own boundary samplers.  TLC evaluates the denotation In /
   NearBd of Geometry.tla:
     interior:  farther than Eps from the boundary  =>  bit = In
     boundary:  no boundary within EpsFar  =>  rejected ;  own boundary samples that lie on the boundary  =>  accepted
   and "exactly one truth value per input row".                                                      *)
EXTENDS Geometry, TLC, TLCExt, Json, IOUtils
Traces == JsonDeserialize(IOEnv.TRACE_FILE)
VARIABLES tid, verdict, dev
Eps == 2          \* fine units (1/64): tolerance around the boundary inside which nothing is demanded
EpsFar == 6
Q(p) == [val |-> p.val, w |-> p.w]
E(t) == t.scenario.expr
BadFar(t) == {i \in DOMAIN t.pts : t.bbits[i] = 1 /\ ~NearBd(E(t), Q(t.pts[i]), EpsFar)}
\* a rejected own sample counts against MEMBERSHIP only if the point really lies on the boundary of the denotation (whether
\* the sampler may produce points off the boundary is property C01, judged by Trace_C01)
OwnBad(t) == {j \in DOMAIN t.own : t.own[j].exc = "" /\ \E i \in DOMAIN t.own[j].bits :
                  t.own[j].bits[i] = 0 /\ NearBdBox(E(t), Q(t.own[j].pts[i]), Eps)}
OwnBadShared(t) == \A j \in DOMAIN t.own : t.own[j].exc = "" => \A i \in DOMAIN t.own[j].bits :
                      (t.own[j].bits[i] = 0 /\ NearBdBox(E(t), Q(t.own[j].pts[i]), Eps)) => LeafBdCount(E(t), Q(t.own[j].pts[i]), 2 * Eps) >= 2
\* <<clause, deviation, number of judged interior points>>
Check(t) ==
    IF "driver_error" \in DOMAIN t THEN <<"driver-error", "", 0>>
    ELSE IF t.exc # "" THEN <<"contains-failed:" \o t.exc, "", 0>>
    ELSE IF ~t.shape_ok \/ Len(t.bits) # Len(t.pts) THEN <<"one-truth-value-per-row", "", 0>>
    ELSE LET J == {i \in DOMAIN t.pts : ~NearBd(E(t), Q(t.pts[i]), Eps)}          \* judged: not within Eps of the boundary
             bad == {i \in J : (t.bits[i] = 1) # In(E(t), Q(t.pts[i]))}
             nj == Cardinality(J)
         IN
         IF bad # {} THEN <<"membership", "", nj>>
         ELSE IF t.exc2 # "" THEN <<"contains-failed(parameters as columns):" \o t.exc2, "", nj>>
         ELSE IF t.bits2 # <<>> /\ (~t.shape2_ok \/ t.bits2 # t.bits) THEN <<"membership(parameters as columns)", "", nj>>
         ELSE IF t.exc3 # "" THEN <<"contains-failed(product space x1*x2, permuted columns):" \o t.exc3, "", nj>>
         ELSE IF t.bits3 # <<>> /\ (~t.shape3_ok \/ t.bits3 # t.bits) THEN <<"membership(product space x1*x2, permuted columns)", "", nj>>
         ELSE IF t.exc4 # "" THEN <<"contains-failed(shape 256 times larger):" \o t.exc4, "", nj>>
         ELSE IF t.bits4 # <<>> /\ (~t.shape4_ok \/ \E i \in J : (t.bits4[i] = 1) # In(E(t), Q(t.pts[i]))) THEN <<"membership(shape 256 times larger)", "", nj>>
         ELSE IF "exc5" \in DOMAIN t /\ t.exc5 # "" THEN <<"contains-failed(same Points object, new content):" \o t.exc5, "", nj>>
         ELSE IF "bits5" \in DOMAIN t /\ t.bits5 # <<>> /\ (~t.shape5_ok \/ \E i \in DOMAIN t.pts5 :
                    ~NearBd(E(t), Q(t.pts5[i]), Eps) /\ (t.bits5[i] = 1) # In(E(t), Q(t.pts5[i]))) THEN <<"membership(same Points object, new content)", "", nj>>
         ELSE IF ~t.nv_ok THEN <<"necessary-variables", "", nj>>
         ELSE IF t.nv_parts /\ ({t.nv_l[i] : i \in DOMAIN t.nv_l} # FreeVars(E(t).l) \ SpaceVars(E(t).l)
                                \/ {t.nv_r[i] : i \in DOMAIN t.nv_r} # FreeVars(E(t).r) \ SpaceVars(E(t).r))
              THEN <<"necessary-variables-of-an-operand-changed-by-the-combination", "", nj>>
         \* boundary clauses only for expressions that denote a set of positive measure on the query lattice
         ELSE IF t.bd = "none" \/ Cardinality({i \in J : t.bits[i] = 1}) < 4 THEN <<"ok", "", nj>>
         ELSE IF t.bd # "ok" THEN <<"boundary-object-failed", "", nj>>
         ELSE IF t.bexc # "" THEN <<"boundary-contains-failed:" \o t.bexc, "", nj>>
         ELSE IF ~t.bshape_ok THEN <<"one-truth-value-per-row(boundary)", "", nj>>
         ELSE IF BadFar(t) # {} THEN <<"boundary-accepts-far-point", "", nj>>
         \* samples of the OPERANDS' boundaries: what is far from the boundary of the combination is rejected by the combination's boundary
         \* (judged for cuts DECLARED contained -- the flag selects other code paths, the operands are constant primitives; in general
         \* position the clause meets the acknowledged deviation bool_bd_shared_piece and parameter rows with degenerate operands)
         ELSE IF "opnd" \in DOMAIN t /\ "contained" \in DOMAIN E(t) /\ \E j \in DOMAIN t.opnd : t.opnd[j].exc = "" /\ \E i \in DOMAIN t.opnd[j].bits :
                    t.opnd[j].bits[i] = 1 /\ ~NearBdTol(E(t), Q(t.opnd[j].pts[i]), EpsFar) THEN <<"boundary-accepts-far-point(operand boundary sample)", "", nj>>
         ELSE IF \E j \in DOMAIN t.own : t.own[j].exc \in {"contains:AssertionError", "contains:RuntimeError", "contains:IndexError", "contains:TypeError", "contains:ValueError", "contains:hang"}
              THEN <<"boundary-contains-failed(own samples)", "", nj>>
         \* acknowledged deviation "bool_bd_shared_piece": every rejected own sample lies on the own boundaries of at least two
         \* primitive operands -- there the Boolean boundary formulas consult the operands' tolerance-free interior tests
         ELSE IF OwnBad(t) # {} THEN <<"boundary-rejects-own-sample", IF OwnBadShared(t) THEN "bool_bd_shared_piece" ELSE "", nj>>
         ELSE <<"ok", "", nj>>
VARIABLE judged
Init == tid \in 1..Len(Traces) /\ LET r == Check(Traces[tid]) IN verdict = r[1] /\ dev = r[2] /\ judged = r[3]
Next == FALSE /\ UNCHANGED <<tid, verdict, dev, judged>>
Report == /\ TLCSet(1, TLCGet(1) \cup {tid})
          /\ TLCSet(5, TLCGet(5) + judged)
          /\ (verdict = "ok" \/ PrintT(<<"REJ", Traces[tid].tid, verdict, dev>>))
Post == PrintT(<<"VALIDATED", Cardinality(TLCGet(1))>>) /\ PrintT(<<"JUDGED", TLCGet(5)>>)
ASSUME TLCSet(1, {}) /\ TLCSet(5, 0)
==========================================================================

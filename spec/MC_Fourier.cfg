SPECIFICATION Spec
INVARIANT Diagonal
INVARIANT Refinement
CHECK_DEADLOCK FALSE

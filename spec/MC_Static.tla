----------------------------- MODULE MC_Static -----------------------------
(* Refinement check: StaticImpl => StaticAbs under  cur <- cache, run <- uses, rrun <- ruses,
   for every initial interval, every history of sample_points / next / make_static up to MaxLen. *)
EXTENDS Integers, TLC
CONSTANTS Inf, Dev, MaxIv, MaxLen
VARIABLES interval, counter, cache, nfresh, ret, uses, ruses, len
I == INSTANCE StaticImpl
A == INSTANCE StaticAbs WITH cur <- cache, run <- uses, rrun <- ruses
Ivs == (1..MaxIv) \cup {Inf}
Init == \E iv \in Ivs : I!IInit(iv) /\ len = 0
Next == /\ len < MaxLen /\ len' = len + 1
        /\ \/ I!Call
           \/ I!NextCall
           \/ \E iv \in Ivs : I!Restatic(iv)
Spec == Init /\ [][Next]_<<interval, counter, cache, nfresh, ret, uses, ruses, len>>
\* every Impl step is an Abs step (or stutters on the Abs variables)
AbsNext == A!Serve \/ A!Peek \/ \E iv \in Ivs : A!Restatic(iv)
Refines == [][AbsNext]_<<interval, cache, uses, ruses, nfresh, ret>>
\* run-length invariant: a cached set is never used more than interval times unless re-staticised meanwhile
RunInv == cache # 0 => (ruses <= interval /\ counter = uses - 1)
=============================================================================

---------------------------- MODULE MC_Adaptive ----------------------------
(* Design level: the in-place replacement rule of the adaptive threshold sampler (Impl) always yields
   a result the property allows (Abs), for all loss vectors / ratios / histories up to the bounds. *)
EXTENDS Adaptive, TLC
CONSTANTS N, MaxLoss, Ratios, Dev, MaxLen
VARIABLES last, hi, len, ok
vars == <<last, hi, len, ok>>
Losses == [1..N -> 0..MaxLoss] \cup {<<>>}
Init == last = <<>> /\ hi = 0 /\ len = 0 /\ ok = TRUE
Step == /\ len < MaxLen /\ len' = len + 1
        /\ \E loss \in Losses, r \in Ratios :
              LET ret == ImplSample(last, hi, loss, r[1], r[2], N, Dev) IN
              /\ ok' = SampleOK(last, hi, loss, r[1], r[2], N, ret)
              /\ last' = ret
              /\ hi' = hi + N
Spec == Init /\ [][Step]_vars
RatiosDef == {<<0,1>>,<<1,4>>,<<1,2>>,<<3,4>>,<<1,1>>}
AbsOK == ok
CountInv == last = <<>> \/ Len(last) = N
=============================================================================

SPECIFICATION Spec
CONSTANTS Pool = {"x","t","k","u"} MaxP = 3 Depth = 0 Mode = "exh"
CONSTRAINT Emit
POSTCONDITION Post
CHECK_DEADLOCK FALSE

SPECIFICATION Spec
CONSTANTS Depth = 0 Mode = "exh"
CONSTRAINT Emit
POSTCONDITION Post
CHECK_DEADLOCK FALSE

------------------------------ MODULE Training ------------------------------
(* Training through the Solver (solver.py) as the REFERENCE OPTIMISATION LOOP, in exact rational arithmetic:
   properties C07 and C19.
   Learnable state:  a, b (affine model u = a x + b),  kap (inverse-problem parameter),  lam (adaptive point weights),
   optimizer state (momentum buffers va, vb, vk, vl),  lr,  k (optimizer steps done),  sched (scheduler steps done).
   One training step = every training condition evaluated ONCE, in order, with iteration index k; total loss
   sum_c weight_c * loss_c; SGD(+momentum) step on every learnable reachable from a training condition (adaptive
   weights ASCEND: their gradient is reversed); scheduler step every `freq` optimizer steps (StepLR: lr is multiplied by
   gamma every `ssize` scheduler steps).  Validation leaves every learnable unchanged.
   Condition kinds (residuals r_i at integer points x_i):
     fit    r = u - (p x + q)                 loss = mean r^2
     inv    r = u - kap * x                   loss = mean r^2      (learns kap)
     pen    penalty (kap - c)^2               (ParameterCondition)
     adapt  r = u - (p x + q)                 loss = mean lam_i r^2 (AdaptiveWeightsCondition, lam ascends)
     data   r = u - (p x + q)                 loss = mean r^2 over ONE mini-batch (DataCondition on a PointsDataLoader with batch size bs,
                                              not shuffled): the k-th evaluation of the condition sees batch k mod ceil(n / bs)    *)
EXTENDS Integers, Sequences
\* ---------------- rationals <<num, den>>, den > 0, normalised
RECURSIVE GCD(_, _)
GCD(a, b) == IF b = 0 THEN a ELSE GCD(b, a % b)
AbsI(x) == IF x < 0 THEN -x ELSE x
Norm(q0) == LET q == IF q0[2] < 0 THEN <<-q0[1], -q0[2]>> ELSE q0
               g == GCD(AbsI(q[1]), q[2]) IN IF q[1] = 0 THEN <<0, 1>> ELSE <<q[1] \div g, q[2] \div g>>
R(n) == <<n, 1>>
\* common denominator = least common multiple (all denominators are powers of two in the dyadic universe)
Add(p, q) == LET g == GCD(p[2], q[2])  L == (p[2] \div g) * q[2] IN Norm(<<p[1] * (L \div p[2]) + q[1] * (L \div q[2]), L>>)
Sub(p, q) == Add(p, <<-q[1], q[2]>>)
Mul(p, q) == LET a == Norm(<<p[1], q[2]>>)  b == Norm(<<q[1], p[2]>>) IN <<a[1] * b[1], a[2] * b[2]>>     \* cross-reduced first
MulI(p, n) == Mul(p, R(n))
DivI(p, n) == IF n < 0 THEN Mul(<<-p[1], p[2]>>, <<1, -n>>) ELSE Mul(p, <<1, n>>)
RECURSIVE SumR(_)
SumR(s) == IF s = <<>> THEN R(0) ELSE Add(Head(s), SumR(Tail(s)))
Fits(q) == AbsI(q[1]) < 16384 /\ q[2] < 16384                 \* magnitude budget of 32-bit integers

\* ---------------- gradients of one condition (as rationals), at state st
U(st, x) == Add(MulI(st.a, x), st.b)
Resid(c, st, i) == LET x == c.xs[i] IN
                   IF c.kind = "inv" THEN Sub(U(st, x), MulI(st.kap, x)) ELSE Sub(U(st, x), R(c.p * x + c.q))
\* the points a condition uses at state st: all of them, or (data) the mini-batch number k mod (number of batches)
NB(c) == (Len(c.xs) + c.bs - 1) \div c.bs
\* (a data condition walks its loader on its own: the batch index counts ITS evaluations -- st.it, the training steps since the
\* conditions were built -- and is not reset when the same Solver is fitted again by a fresh Trainer)
Lo(c, st) == IF c.kind = "data" THEN (st.it % NB(c)) * c.bs + 1 ELSE 1
Hi(c, st) == IF c.kind = "data" THEN (IF Lo(c, st) + c.bs - 1 > Len(c.xs) THEN Len(c.xs) ELSE Lo(c, st) + c.bs - 1) ELSE Len(c.xs)
N(c) == Len(c.xs)
NAt(c, st) == Hi(c, st) - Lo(c, st) + 1
Lam(c, st, i) == IF c.kind = "adapt" THEN st.lam[i] ELSE R(1)
GradA(c, st) == IF c.kind = "pen" THEN R(0)
                ELSE DivI(MulI(SumR([i \in 1..NAt(c, st) |-> LET ii == Lo(c, st) + i - 1 IN Mul(Lam(c, st, ii), MulI(Resid(c, st, ii), c.xs[ii]))]), 2), NAt(c, st))
GradB(c, st) == IF c.kind = "pen" THEN R(0)
                ELSE DivI(MulI(SumR([i \in 1..NAt(c, st) |-> LET ii == Lo(c, st) + i - 1 IN Mul(Lam(c, st, ii), Resid(c, st, ii))]), 2), NAt(c, st))
GradK(c, st) == IF c.kind = "pen" THEN MulI(Sub(st.kap, R(c.c)), 2)
                ELSE IF c.kind = "inv" THEN DivI(MulI(SumR([i \in 1..N(c) |-> MulI(Resid(c, st, i), -c.xs[i])]), 2), N(c))
                ELSE R(0)
\* reversed gradient of the adaptive weights:  -(1/n) r_i^2
GradL(c, st, i) == IF c.kind = "adapt" THEN DivI(Mul(Resid(c, st, i), Resid(c, st, i)), -N(c)) ELSE R(0)
W(c) == <<c.wn, c.wd>>
Tot(conds, st, G(_, _)) == SumR([j \in DOMAIN conds |-> Mul(W(conds[j]), G(conds[j], st))])
HasKind(conds, kd) == \E j \in DOMAIN conds : conds[j].kind = kd
\* ---------------- one optimizer step (SGD with momentum mu = <<mn, md>>; first step: buffer = gradient)
Buf(st, v, g, mu) == IF st.k = 0 THEN g ELSE Add(Mul(mu, v), g)
\* ---------------- a second optimizer, "two": TWO closure evaluations per step and a NON-TENSOR state entry (the family of LBFGS:
\* line searches re-evaluate the loss inside optimizer.step(), and keep counters / lists in their state).  Exact in rationals:
\*     g1 = grad(theta);  theta' = theta - (lr/2) g1;  g2 = grad(theta');  theta'' = theta' - (lr/2) c_n g2;  n = n + 1
\* with c_0 = 1 and c_n = 2 afterwards (n is a python int in optimizer.state; it equals the number of steps of this optimizer).
IsTwo(cfg) == "opt" \in DOMAIN cfg /\ cfg.opt = "two"
Half(cfg, st, h, c) ==
    LET cs == cfg.train
        ad == {j \in DOMAIN cs : cs[j].kind = "adapt"}
        gl == [i \in DOMAIN st.lam |-> IF ad = {} THEN R(0) ELSE LET cc == cs[CHOOSE j \in ad : TRUE] IN Mul(W(cc), GradL(cc, st, i))]
        hc == MulI(h, c)
    IN [st EXCEPT !.a = Sub(st.a, Mul(hc, Tot(cs, st, GradA))), !.b = Sub(st.b, Mul(hc, Tot(cs, st, GradB))),
                  !.kap = IF HasKind(cs, "inv") \/ HasKind(cs, "pen") THEN Sub(st.kap, Mul(hc, Tot(cs, st, GradK))) ELSE st.kap,
                  !.lam = [i \in DOMAIN st.lam |-> Sub(st.lam[i], Mul(hc, gl[i]))]]
Step2(cfg, st) ==
    LET h == Mul(st.lr, <<1, 2>>)
        s1 == Half(cfg, st, h, 1)
        k2 == st.k + 1
        sc2 == IF cfg.ssize > 0 /\ k2 % cfg.freq = 0 THEN st.sched + 1 ELSE st.sched
        lr2 == IF cfg.ssize > 0 /\ sc2 # st.sched /\ sc2 % cfg.ssize = 0 THEN Mul(st.lr, <<cfg.gn, cfg.gd>>) ELSE st.lr
        fits1 == Fits(s1.a) /\ Fits(s1.b) /\ Fits(s1.kap) /\ \A i \in DOMAIN s1.lam : Fits(s1.lam[i])
    \* (an intermediate point outside the magnitude budget: the step is not computed; the marker state fails StateFits)
    IN IF ~fits1 THEN [st EXCEPT !.a = <<16384, 1>>, !.k = k2, !.it = st.it + 1]
       ELSE [Half(cfg, s1, h, IF st.k = 0 THEN 1 ELSE 2) EXCEPT !.lr = lr2, !.k = k2, !.sched = sc2, !.it = st.it + 1]
StepSGD(cfg, st) ==
    LET cs == cfg.train
        mu == <<cfg.mun, cfg.mud>>
        ga == Tot(cs, st, GradA)  gb == Tot(cs, st, GradB)  gk == Tot(cs, st, GradK)
        va == Buf(st, st.va, ga, mu)  vb == Buf(st, st.vb, gb, mu)  vk == Buf(st, st.vk, gk, mu)
        ad == {j \in DOMAIN cs : cs[j].kind = "adapt"}
        gl == [i \in DOMAIN st.lam |-> IF ad = {} THEN R(0) ELSE LET c == cs[CHOOSE j \in ad : TRUE] IN Mul(W(c), GradL(c, st, i))]
        vl == [i \in DOMAIN st.lam |-> Buf(st, st.vl[i], gl[i], mu)]
        k2 == st.k + 1
        sc2 == IF cfg.ssize > 0 /\ k2 % cfg.freq = 0 THEN st.sched + 1 ELSE st.sched
        lr2 == IF cfg.ssize > 0 /\ sc2 # st.sched /\ sc2 % cfg.ssize = 0 THEN Mul(st.lr, <<cfg.gn, cfg.gd>>) ELSE st.lr
    IN [a |-> Sub(st.a, Mul(st.lr, va)), b |-> Sub(st.b, Mul(st.lr, vb)),
        kap |-> IF HasKind(cs, "inv") \/ HasKind(cs, "pen") THEN Sub(st.kap, Mul(st.lr, vk)) ELSE st.kap,
        lam |-> [i \in DOMAIN st.lam |-> Sub(st.lam[i], Mul(st.lr, vl[i]))],
        va |-> va, vb |-> vb, vk |-> vk, vl |-> vl, lr |-> lr2, k |-> k2, sched |-> sc2, it |-> st.it + 1]
Step(cfg, st) == IF IsTwo(cfg) THEN Step2(cfg, st) ELSE StepSGD(cfg, st)
Init0(cfg) == [a |-> R(cfg.a0), b |-> R(cfg.b0), kap |-> R(cfg.k0), lam |-> [i \in 1..cfg.nl |-> R(1)],
               va |-> R(0), vb |-> R(0), vk |-> R(0), vl |-> [i \in 1..cfg.nl |-> R(0)],
               lr |-> <<cfg.lrn, cfg.lrd>>, k |-> 0, sched |-> 0, it |-> 0]
RECURSIVE After(_, _)
After(cfg, n) == IF n = 0 THEN Init0(cfg) ELSE Step(cfg, After(cfg, n - 1))
\* a second fit of the SAME Solver with a fresh Trainer: the learnables persist; optimizer, scheduler and the iteration index start again
Restart(cfg, st) == [st EXCEPT !.k = 0, !.sched = 0, !.lr = <<cfg.lrn, cfg.lrd>>, !.va = R(0), !.vb = R(0), !.vk = R(0),
                               !.vl = [i \in DOMAIN st.vl |-> R(0)]]
RECURSIVE AfterR(_, _)
AfterR(cfg, n) == IF n <= cfg.N THEN After(cfg, n)
                  ELSE Step(cfg, IF n = cfg.N + 1 THEN Restart(cfg, After(cfg, cfg.N)) ELSE AfterR(cfg, n - 1))
StateFits(st) == Fits(st.a) /\ Fits(st.b) /\ Fits(st.kap) /\ Fits(st.va) /\ Fits(st.vb) /\ Fits(st.vk)
                 /\ \A i \in DOMAIN st.lam : Fits(st.lam[i]) /\ Fits(st.vl[i])
\* the learnable part (what C07 compares after every step)
Learn(st) == [a |-> st.a, b |-> st.b, kap |-> st.kap, lam |-> st.lam, lr |-> st.lr]
=============================================================================

SPECIFICATION Spec
CONSTANTS Mode = "hist" MaxOps = 6
CONSTRAINT Emit
POSTCONDITION Post
CHECK_DEADLOCK FALSE

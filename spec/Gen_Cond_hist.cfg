SPECIFICATION Spec
CONSTANTS Mode = "hist" MaxOps = 7
CONSTRAINT Emit
POSTCONDITION Post
CHECK_DEADLOCK FALSE

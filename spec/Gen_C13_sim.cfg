SPECIFICATION Spec
CONSTANTS Pool = {"x","t","k","u"} MaxP = 4 Depth = 12 Mode = "sim"
CONSTRAINT Emit
POSTCONDITION Post
CHECK_DEADLOCK FALSE

---------------------------- MODULE Trace_C02 ----------------------------
(* Trace validation for C02: the decoded tables returned by real sampler compositions against the row bookkeeping
   rules of Samplers.tla; len(sampler) against the row count of a parameter-free call; two consecutive calls. *)
EXTENDS Samplers, TLC, TLCExt, Json, IOUtils
Traces == JsonDeserialize(IOEnv.TRACE_FILE)
VARIABLES tid, verdict, dev
S(t) == t.scenario.smp
RECURSIVE HasNarrow(_)
HasNarrow(s) == CASE s.k = "leaf" -> s.kind = "narrow" [] s.k = "static" -> HasNarrow(s.a) [] OTHER -> HasNarrow(s.a) \/ HasNarrow(s.b)
RECURSIVE IsStatic(_)
IsStatic(s) == s.k = "static"
\* acknowledged deviations, identified by the construct that fails
RECURSIVE HasKind(_, _)
HasKind(s, kd) == CASE s.k = "leaf" -> FALSE [] s.k = "static" -> s.k = kd \/ HasKind(s.a, kd) [] OTHER -> s.k = kd \/ HasKind(s.a, kd) \/ HasKind(s.b, kd)
DevOf(t, clause) ==
    IF clause = "sampling-failed:AssertionError" /\ HasKind(S(t), "append") /\ t.scenario.k > 0 THEN "append_with_params"
    ELSE ""
Check(t) ==
    IF "driver_error" \in DOMAIN t THEN "driver-error"
    ELSE IF t.build_exc # "" THEN "construction-failed:" \o t.build_exc
    ELSE LET s == S(t)  P == t.P IN
    \* (a 2 % filter: the sampler's documented safeguard may give up when 20 rounds contain no valid candidate; such a run is not judged)
    IF HasNarrow(s) /\ ((\E i \in DOMAIN t.calls : t.calls[i].exc = "FilterGaveUp") \/ (t.has_free /\ t.free.exc = "FilterGaveUp")) THEN "ok"
    ELSE IF \E i \in DOMAIN t.calls : t.calls[i].exc # "" THEN "sampling-failed:" \o (t.calls[CHOOSE i \in DOMAIN t.calls : t.calls[i].exc # ""].exc)
    \* the second call has other parameter values (a static sampler keeps serving the first table)
    ELSE LET c1 == Clause(s, t.calls[1].rows, P)  c2 == Clause(s, t.calls[2].rows, IF IsStatic(s) THEN P ELSE t.P2) IN
    IF c1 # "ok" THEN c1
    ELSE IF c2 # "ok" THEN "second-call:" \o c2
    ELSE IF IsStatic(s) /\ ~SameTable(t.calls[1].rows, t.calls[2].rows) THEN "static-sampler-changed"
    ELSE IF t.has_free /\ t.free.exc # "" THEN "parameter-free-call-failed:" \o t.free.exc
    ELSE IF t.has_free /\ Clause(s, t.free.rows, <<>>) # "ok" THEN "parameter-free:" \o Clause(s, t.free.rows, <<>>)
    ELSE IF t.len_before # -1 /\ t.len_before # LenSpec(s) THEN "len-before-first-call"
    ELSE IF t.has_free /\ t.len_after # Len(t.free.rows) THEN "len-after-parameter-free-call"
    \* the same object after calls with k parameter rows: a parameter-free call, then len() = the rows of THAT call
    \* (a static sampler keeps serving the table of its first call, whatever the parameters: not judged)
    ELSE IF "hist_rows" \in DOMAIN t /\ t.hist_rows >= 0 /\ ~IsStatic(s) /\ t.hist_len # t.hist_rows THEN "len-after-a-history-of-calls"
    ELSE "ok"
Init == tid \in 1..Len(Traces) /\ verdict = Check(Traces[tid]) /\ dev = DevOf(Traces[tid], verdict)
Next == FALSE /\ UNCHANGED <<tid, verdict, dev>>
Report == /\ TLCSet(1, TLCGet(1) \cup {tid})
          /\ (verdict = "ok" \/ PrintT(<<"REJ", Traces[tid].tid, verdict, dev>>))
Post == PrintT(<<"VALIDATED", Cardinality(TLCGet(1))>>)
ASSUME TLCSet(1, {})
==========================================================================

CONSTANTS Big = FALSE

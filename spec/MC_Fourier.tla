----------------------------- MODULE MC_Fourier -----------------------------
(* Design level: the mode bookkeeping of _FourierLayer is a DIAGONAL map in frequency (output frequency k is input
   frequency k times kernel[k], or zero), for every spectrum length and mode count; a diagonal map commutes with
   circular shifts and, for input below the kept band, does not depend on the resolution. *)
EXTENDS Fourier, TLC
VARIABLES L, M, step
Init == L \in 1..33 /\ M \in 1..20 /\ step = 0
Next == step = 0 /\ step' = 1 /\ UNCHANGED <<L, M>>
Spec == Init /\ [][Next]_<<L, M, step>>
Diagonal == \A k \in 0..(L - 1) :
               LET slot == BackToL(L, M)[k] IN
               IF k \in KeptEntries(L, M) THEN slot = k /\ AfterPad(L, M)[slot] = k ELSE slot = -1
\* refinement: a frequency below min(M, Lc) is treated identically on a coarse (Lc) and a finer (Lf >= Lc) spectrum
Refinement == \A Lf \in L..(L + 8) : \A k \in 0..(L - 1) : k < M => (BackToL(L, M)[k] = BackToL(Lf, M)[k])
=============================================================================

---------------------------- MODULE Trace_C17 ----------------------------
(* Trace validation for C17: D2 = D(binding) must denote Den(D) at the bound values:
     membership of D2 (each lattice point with its own REMAINING parameter row) = In(e, row + binding);
     volume / bounding box of D2 at the remaining rows = volume / box of D at (binding + remaining rows);
     samples of D2 lie in Den(e) at (binding + row);
     necessary_variables(D) = FreeVars(e) and necessary_variables(D2) = FreeVars(e) \ bound;
     D itself is unchanged by the call.                                                            *)
EXTENDS Geometry, TLC, TLCExt, Json, IOUtils
Traces == JsonDeserialize(IOEnv.TRACE_FILE)
VARIABLES tid, verdict, dev, judged
Eps == 2
Tol == 2
E(t) == t.scenario.expr
Q(p) == [val |-> p.val, w |-> p.w]
AsSet(s) == {s[i] : i \in DOMAIN s}
Params(e) == FreeVars(e) \ SpaceVars(e)
AbsD(a, b) == IF a > b THEN a - b ELSE b - a
SeqClose(a, b, tol) == Len(a) = Len(b) /\ \A i \in DOMAIN a : AbsD(a[i], b[i]) <= tol + (AbsD(a[i], 0) \div 256)
\* acknowledged deviation: the single boundary point of an interval keeps its un-evaluated side function
RECURSIVE HasNode(_, _)
HasNode(e, kind) == e.k = kind \/ (e.k \in {"union", "cut", "and", "prod"} /\ (HasNode(e.l, kind) \/ HasNode(e.r, kind)))
                    \/ (e.k \in {"trans", "rot", "bd", "bdl", "bdr"} /\ HasNode(e.d, kind))
SingleBd(e) == HasNode(e, "bdl") \/ HasNode(e, "bdr")
RECURSIVE HasBd(_)
HasBd(e) == e.k \in {"bd", "bdl", "bdr"} \/ (e.k \in {"union", "cut", "and", "prod"} /\ (HasBd(e.l) \/ HasBd(e.r))) \/ (e.k \in {"trans", "rot"} /\ HasBd(e.d))
Check(t) ==
    IF "driver_error" \in DOMAIN t THEN <<"driver-error", "", 0>>
    ELSE LET e == E(t) IN
    IF AsSet(t.nv) # Params(e) THEN <<"necessary-variables", "", 0>>
    ELSE IF "pe" \notin DOMAIN t THEN <<"ok", "", 0>>
    ELSE LET pe == t.pe  bound == DOMAIN pe.bind IN
    \* (checked first: an acknowledged deviation of the same object must not hide a wrong normal field)
    IF "normals" \in DOMAIN pe /\ \E i \in DOMAIN pe.normals : ~SeqClose(pe.normals[i], pe.normals_full[i], 3) THEN <<"normal-after-binding", "", 0>>
    ELSE IF pe.exc # "" THEN <<"partial-evaluation-failed:" \o pe.exc, IF SingleBd(e) THEN "single_bd_point_side" ELSE "", 0>>
    ELSE IF AsSet(pe.nv) # Params(e) \ bound THEN <<"necessary-variables-after-binding", IF SingleBd(e) THEN "single_bd_point_side" ELSE "", 0>>
    ELSE IF ~pe.orig_same THEN <<"original-domain-changed", "", 0>>
    ELSE IF ~HasNode(e, "prod") /\ ~pe.stable THEN <<"earlier-partial-evaluation-changed-by-a-later-one", "", 0>>
    ELSE LET J == IF HasBd(e) THEN {} ELSE {i \in DOMAIN pe.pts : ~NearBd(e, Q(pe.pts[i]), Eps)}
             bad == {i \in J : (pe.bits[i] = 1) # In(e, Q(pe.pts[i]))}
         IN
         IF ~HasBd(e) /\ ~pe.bits_ok THEN <<"one-truth-value-per-row", "", 0>>
         ELSE IF bad # {} THEN <<"membership-after-binding", "", Cardinality(J)>>
         \* (volume / box of products with a dependent factor are documented random estimates: not compared)
         ELSE IF HasNode(e, "prod") THEN
              (IF \E i \in DOMAIN pe.samples : ~InTol(e, Q(pe.samples[i]), Tol) THEN <<"sample-after-binding-outside", "", Cardinality(J)>> ELSE <<"ok", "", Cardinality(J)>>)
         ELSE IF pe.vol_exc # pe.full.vol_exc THEN <<"volume-fails-differently", "", Cardinality(J)>>
         ELSE IF pe.vol_exc = "" /\ Len(pe.vol) = Len(pe.full.vol) /\ ~SeqClose(pe.vol, pe.full.vol, 4) THEN <<"volume-after-binding", "", Cardinality(J)>>
         ELSE IF pe.vol_exc = "" /\ Len(pe.vol) # Len(pe.full.vol) /\ Len(pe.vol) # 1 /\ Len(pe.full.vol) # 1 THEN <<"volume-rows-after-binding", "", Cardinality(J)>>
         \* one value on one side (nothing left to depend on): it is the value of every row of the other side
         ELSE IF pe.vol_exc = "" /\ Len(pe.vol) = 1 /\ Len(pe.full.vol) > 1 /\ \E i \in DOMAIN pe.full.vol : ~SeqClose(pe.vol, <<pe.full.vol[i]>>, 4) THEN <<"volume-after-binding", "", Cardinality(J)>>
         ELSE IF pe.vol_exc = "" /\ Len(pe.full.vol) = 1 /\ Len(pe.vol) > 1 /\ \E i \in DOMAIN pe.vol : ~SeqClose(<<pe.vol[i]>>, pe.full.vol, 4) THEN <<"volume-after-binding", "", Cardinality(J)>>
         ELSE IF pe.box_exc = "" /\ pe.full.box_exc = "" /\ pe.box_shape = pe.full.box_shape /\ ~SeqClose(pe.box, pe.full.box, 2) THEN <<"bounding-box-after-binding", "", Cardinality(J)>>
         ELSE IF ~HasBd(e) /\ \E i \in DOMAIN pe.samples : ~InTol(e, Q(pe.samples[i]), Tol) THEN <<"sample-after-binding-outside", "", Cardinality(J)>>
         \* the normal field of a boundary after binding is that of the original boundary at the joint rows
         ELSE IF pe.normals_exc # "" THEN <<"normal-after-binding-failed", "", Cardinality(J)>>
         ELSE IF \E i \in DOMAIN pe.normals : ~SeqClose(pe.normals[i], pe.normals_full[i], 3) THEN <<"normal-after-binding", "", Cardinality(J)>>
         \* the plot sampler evaluates the domain at the given values of the other variables: every plot point lies in the closed
         \* set at those values (interior grid + boundary grid), carries exactly those values, and a second call returns as many
         \* (a failing or endless call is judged only where the evaluated set has positive measure: >= 8 of the lattice points inside)
         ELSE IF "plot_exc" \in DOMAIN pe /\ pe.plot_exc \notin {"", "none"} /\ Cardinality({i \in DOMAIN pe.pts : In(e, Q(pe.pts[i]))}) >= 8 THEN <<"plot-sampler-failed:" \o pe.plot_exc, "", Cardinality(J)>>
         ELSE IF "plot_exc" \in DOMAIN pe /\ pe.plot_exc = "" /\ ~pe.plot_cols_ok THEN <<"plot-sampler-other-variables", "", Cardinality(J)>>
         ELSE IF "plot" \in DOMAIN pe /\ \E i \in DOMAIN pe.plot : ~InTol(e, Q(pe.plot[i]), Tol) THEN <<"plot-sampler-point-outside", "", Cardinality(J)>>
         \* the animation sampler: the free variable is the animation variable, the plot domain follows it frame by frame
         \* (a failing / endless call is judged for expressions without cuts and intersections: those may be empty at some frame)
         ELSE IF "anim_exc" \in DOMAIN pe /\ pe.anim_exc \notin {"", "none"} /\ ~HasNode(e, "cut") /\ ~HasNode(e, "and")
                 /\ Cardinality({i \in DOMAIN pe.pts : In(e, Q(pe.pts[i]))}) >= 8
              THEN <<"animation-sampler-failed:" \o pe.anim_exc, "", Cardinality(J)>>
         ELSE IF "anim" \in DOMAIN pe /\ \E i \in DOMAIN pe.anim : ~InTol(e, Q(pe.anim[i]), Tol) THEN <<"animation-sampler-point-outside", "", Cardinality(J)>>
         \* (last: an acknowledged deviation) the volume the user set on D is the volume of D(**v)
         ELSE IF pe.uservol_pe_exc = "" /\ \E i \in DOMAIN pe.uservol_pe : pe.uservol_pe[i] # 5 * 1024 THEN <<"user-set-volume-lost-by-binding", "user_volume_lost_by_binding", Cardinality(J)>>
         ELSE IF pe.uservol_pe_exc \notin {"", "none"} THEN <<"user-set-volume-after-binding-failed", "", Cardinality(J)>>
         ELSE <<"ok", "", Cardinality(J)>>
Init == tid \in 1..Len(Traces) /\ LET r == Check(Traces[tid]) IN verdict = r[1] /\ dev = r[2] /\ judged = r[3]
Next == FALSE /\ UNCHANGED <<tid, verdict, dev, judged>>
Report == /\ TLCSet(1, TLCGet(1) \cup {tid})
          /\ TLCSet(5, TLCGet(5) + judged)
          /\ (verdict = "ok" \/ PrintT(<<"REJ", Traces[tid].tid, verdict, dev>>))
Post == PrintT(<<"VALIDATED", Cardinality(TLCGet(1))>>) /\ PrintT(<<"JUDGED", TLCGet(5)>>)
ASSUME TLCSet(1, {}) /\ TLCSet(5, 0)
==========================================================================

----------------------------- MODULE Gen_C20 -----------------------------
(* Configurations for C20: spatial dimension, resolution, channels, modes (below / equal / above N div 2 + 1),
   linear / skip connections, a single layer or a full FNO with Tanh; shifts; refinement factors (1-D layer). *)
EXTENDS Integers, Sequences, FiniteSets, TLC, Json, IOUtils, SequencesExt
S1 == {[d |-> 1, N |-> <<n>>, ch |-> c, modes |-> <<m>>, lin |-> l, skip |-> sk, kind |-> kd,
        shifts |-> [i \in 1..(n - 1) |-> <<i>>], refine |-> IF kd = "layer" THEN <<2, 3>> ELSE <<>>] :
          n \in {4, 5, 8, 9, 12}, c \in 1..2, m \in {2, 3, 5, 9}, l \in BOOLEAN, sk \in BOOLEAN, kd \in {"layer", "fno"}}
S2 == {[d |-> 2, N |-> nn, ch |-> c, modes |-> mm, lin |-> l, skip |-> l, kind |-> kd,
        shifts |-> <<<<1, 0>>, <<0, 1>>, <<2, 3>>, <<nn[1] - 1, 1>>, <<3, nn[2] - 1>>, <<1, 2>>>>, refine |-> <<>>] :
          nn \in {<<4, 4>>, <<5, 8>>, <<8, 6>>}, c \in {1, 3}, mm \in {<<2, 2>>, <<3, 5>>, <<9, 9>>}, l \in BOOLEAN, kd \in {"layer", "fno"}}
\* grids that oversample the kept modes 8 and more times (input content far above the kept band: random fields)
S3 == {[d |-> 1, N |-> <<n>>, ch |-> c, modes |-> <<m>>, lin |-> l, skip |-> l, kind |-> kd,
        shifts |-> [i \in 1..7 |-> <<IF i < 6 THEN i ELSE n - (i - 5)>>], refine |-> IF kd = "layer" THEN <<2>> ELSE <<>>] :
          n \in {16, 24, 33}, c \in 1..2, m \in {2, 3}, l \in BOOLEAN, kd \in {"layer", "fno"}}
S4 == {[d |-> 2, N |-> nn, ch |-> c, modes |-> mm, lin |-> l, skip |-> l, kind |-> kd,
        shifts |-> <<<<1, 0>>, <<0, 1>>, <<3, 1>>, <<nn[1] - 1, 5>>>>, refine |-> <<>>] :
          nn \in {<<16, 8>>, <<8, 24>>, <<16, 17>>}, c \in {2}, mm \in {<<2, 2>>, <<2, 3>>}, l \in BOOLEAN, kd \in {"layer", "fno"}}
Scen == S1 \cup S2 \cup S3 \cup S4
ASSUME ndJsonSerialize(IOEnv.OUT_FILE, SetToSeq(Scen)) /\ PrintT(<<"SCENARIOS", Cardinality(Scen)>>)
==========================================================================

CONSTANTS NPres = 0

----------------------------- MODULE Gen_C02 -----------------------------
(* Scenario generation for C02: sampler ASTs up to depth 2 over id-revealing leaves, each with parameter tables of
   k in {0, 1, 3} rows (over "t" when a moving leaf needs it from outside, else over the unrelated "p"). *)
EXTENDS Samplers, TLC, Json, IOUtils, SequencesExt
CONSTANTS Deep
Leaf(kind, v, n, dom) == [k |-> "leaf", kind |-> kind, v |-> v, n |-> n, dom |-> dom]
XL == {Leaf(kd, "x", n, "fix") : kd \in {"random", "grid", "gridflt", "gauss", "lhs", "expint", "filtered", "narrow", "data"}, n \in 1..3}
      \cup {Leaf(kd, "x", n, "mov") : kd \in {"random", "grid", "filtered", "narrow"}, n \in 1..3}
YL == {Leaf(kd, "y", n, "fix") : kd \in {"random", "grid", "data"}, n \in 1..2}
TL == {Leaf("data", "t", n, "fix") : n \in 1..3}
Prod(a, b) == [k |-> "prod", a |-> a, b |-> b]
Sum(a, b) == [k |-> "sum", a |-> a, b |-> b]
App(a, b) == [k |-> "append", a |-> a, b |-> b]
Stat(a) == [k |-> "static", a |-> a]
D1 == {Prod(a, b) : a \in XL, b \in YL \cup TL} \cup {Sum(a, b) : a \in XL, b \in {x \in XL : x.n = 2}}
      \cup {App(a, b) : a \in XL, b \in {y \in YL : y.kind # "data"}} \cup {Stat(a) : a \in XL}
D2 == {Prod(Prod(a, b), c) : a \in {x \in XL : x.n = 2}, b \in {y \in YL : y.n = 2}, c \in TL}
      \cup {Prod(a, Prod(b, c)) : a \in {x \in XL : x.n = 2 /\ x.kind \in {"random", "grid", "data"}}, b \in {y \in YL : y.n = 1}, c \in {z \in TL : z.n = 2}}
      \cup {Stat(Prod(a, b)) : a \in {x \in XL : x.n = 2}, b \in TL}
      \cup {Sum(Prod(a, b), a) : a \in {x \in XL : x.n = 1 /\ x.dom = "fix"}, b \in {y \in YL : y.n = 2}}
      \cup {Prod(Sum(a, a2), b) : a \in {x \in XL : x.n = 1}, a2 \in {x \in XL : x.n = 2 /\ x.kind = "grid"}, b \in TL}
RECURSIVE UsesMov(_)
UsesMov(s) == CASE s.k = "leaf" -> s.dom = "mov" [] s.k = "static" -> UsesMov(s.a) [] OTHER -> UsesMov(s.a) \/ UsesMov(s.b)
HasT(s) == "t" \in Cols(s)
\* valid: append needs equally long operands; a moving leaf needs t from a TL partner or from the outer parameters
RECURSIVE Valid(_)
Valid(s) == CASE s.k = "leaf" -> TRUE
              [] s.k = "append" -> PerRow(s.a) = PerRow(s.b) /\ Valid(s.a) /\ Valid(s.b)
              [] s.k = "static" -> Valid(s.a)
              [] s.k = "sum" -> Valid(s.a) /\ Valid(s.b) /\ Cols(s.a) = Cols(s.b)
              [] s.k = "prod" -> Valid(s.a) /\ Valid(s.b) /\ Cols(s.a) \cap Cols(s.b) = {}
Scen == UNION {
          IF HasT(s) THEN {[smp |-> s, pvar |-> "p", k |-> kk] : kk \in {0, 1, 3}}
          ELSE IF UsesMov(s) THEN {[smp |-> s, pvar |-> "t", k |-> kk] : kk \in {1, 3}}
          ELSE {[smp |-> s, pvar |-> pv, k |-> kk] : pv \in {"p"}, kk \in {0, 1, 3}}
          : s \in {x \in XL \cup YL \cup D1 \cup (IF Deep THEN D2 ELSE {}) : Valid(x)}}
ASSUME ndJsonSerialize(IOEnv.OUT_FILE, SetToSeq(Scen)) /\ PrintT(<<"SCENARIOS", Cardinality(Scen)>>)
==========================================================================

SPECIFICATION Spec
CONSTANTS MaxN = 8 MaxB = 9 Dev = {} Kinds = {"points","shared","unique"} SharedKnown = TRUE
INVARIANT SizeInv
INVARIANT CoverInv
INVARIANT LenInv
CHECK_DEADLOCK FALSE

SPECIFICATION Spec
CONSTANTS Mode = "hist" MaxOps = 8
CONSTRAINT Emit
POSTCONDITION Post
CHECK_DEADLOCK FALSE

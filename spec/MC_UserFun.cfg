SPECIFICATION Spec
CONSTANTS Names = {"x","t","k"} Vals = {5,6} MaxLen = 3 MaxW = 3 Dev = {}
INVARIANT OK
INVARIANT CallInv
CHECK_DEADLOCK FALSE

SPECIFICATION Spec
CONSTANTS Depth = 4 Mode = "sim"
CONSTRAINT Emit
POSTCONDITION Post
CHECK_DEADLOCK FALSE

---- MODULE Dbg_TTrace_1790530279 ----
EXTENDS Sequences, TLCExt, Toolbox, Dbg, Naturals, TLC

_expression ==
    LET Dbg_TEExpression == INSTANCE Dbg_TEExpression
    IN Dbg_TEExpression!expression
----

_trace ==
    LET Dbg_TETrace == INSTANCE Dbg_TETrace
    IN Dbg_TETrace!trace
----

_inv ==
    ~(
        TLCGet("level") = Len(_TETrace)
        /\
        sc = ([k |-> 0, smp |-> [k |-> "static", a |-> [v |-> "x", n |-> 1, k |-> "leaf", dom |-> "fix", kind |-> "grid"]], pvar |-> "p"])
        /\
        step = (1)
    )
----

_init ==
    /\ sc = _TETrace[1].sc
    /\ step = _TETrace[1].step
----

_next ==
    /\ \E i,j \in DOMAIN _TETrace:
        /\ \/ /\ j = i + 1
              /\ i = TLCGet("level")
        /\ sc  = _TETrace[i].sc
        /\ sc' = _TETrace[j].sc
        /\ step  = _TETrace[i].step
        /\ step' = _TETrace[j].step

\* Uncomment the ASSUME below to write the states of the error trace
\* to the given file in Json format. Note that you can pass any tuple
\* to `JsonSerialize`. For example, a sub-sequence of _TETrace.
    \* ASSUME
    \*     LET J == INSTANCE Json
    \*         IN J!JsonSerialize("Dbg_TTrace_1790530279.json", _TETrace)

=============================================================================

 Note that you can extract this module `Dbg_TEExpression`
  to a dedicated file to reuse `expression` (the module in the 
  dedicated `Dbg_TEExpression.tla` file takes precedence 
  over the module `Dbg_TEExpression` below).

---- MODULE Dbg_TEExpression ----
EXTENDS Sequences, TLCExt, Toolbox, Dbg, Naturals, TLC

expression == 
    [
        \* To hide variables of the `Dbg` spec from the error trace,
        \* remove the variables below.  The trace will be written in the order
        \* of the fields of this record.
        sc |-> sc
        ,step |-> step
        
        \* Put additional constant-, state-, and action-level expressions here:
        \* ,_stateNumber |-> _TEPosition
        \* ,_scUnchanged |-> sc = sc'
        
        \* Format the `sc` variable as Json value.
        \* ,_scJson |->
        \*     LET J == INSTANCE Json
        \*     IN J!ToJson(sc)
        
        \* Lastly, you may build expressions over arbitrary sets of states by
        \* leveraging the _TETrace operator.  For example, this is how to
        \* count the number of times a spec variable changed up to the current
        \* state in the trace.
        \* ,_scModCount |->
        \*     LET F[s \in DOMAIN _TETrace] ==
        \*         IF s = 1 THEN 0
        \*         ELSE IF _TETrace[s].sc # _TETrace[s-1].sc
        \*             THEN 1 + F[s-1] ELSE F[s-1]
        \*     IN F[_TEPosition - 1]
    ]

=============================================================================



Parsing and semantic processing can take forever if the trace below is long.
 In this case, it is advised to uncomment the module below to deserialize the
 trace from a generated binary file.

\*
\*---- MODULE Dbg_TETrace ----
\*EXTENDS IOUtils, Dbg, TLC
\*
\*trace == IODeserialize("Dbg_TTrace_1790530279.bin", TRUE)
\*
\*=============================================================================
\*

---- MODULE Dbg_TETrace ----
EXTENDS Dbg, TLC

trace == 
    <<
    ([sc |-> [k |-> 0, smp |-> [k |-> "static", a |-> [v |-> "x", n |-> 1, k |-> "leaf", dom |-> "fix", kind |-> "grid"]], pvar |-> "p"],step |-> 0]),
    ([sc |-> [k |-> 0, smp |-> [k |-> "static", a |-> [v |-> "x", n |-> 1, k |-> "leaf", dom |-> "fix", kind |-> "grid"]], pvar |-> "p"],step |-> 1])
    >>
----


=============================================================================

---- CONFIG Dbg_TTrace_1790530279 ----
CONSTANTS
    Deep = FALSE
    Dev = { }

INVARIANT
    _inv

CHECK_DEADLOCK
    \* CHECK_DEADLOCK off because of PROPERTY or INVARIANT above.
    FALSE

INIT
    _init

NEXT
    _next

CONSTANT
    _TETrace <- _trace

ALIAS
    _expression
=============================================================================
\* Generated on Sun Sep 27 17:31:20 UTC 2026